/* C14: write-once.  Real units: raw.c, core.c, track.c, writer.c, buffer.c over the in-memory backend (membk) with the
 * content-dependent checksum stub.  The annotation/UTC index builders (wr_ts.c) and the FSR packer (wr_fsr.c) are not
 * linked: jls_wr_ts_anno / jls_wr_ts_utc are stubs, so the primitives exercised are exactly the ones that touch the file.
 *
 * Pre-state: built by the real code (raw open "w", initial user-data chunk, source 0, one signal with its FSR, annotation
 * and UTC track DEF/HEAD chunks), followed by KOPS symbolic operations.  Before each operation the harness snapshots the
 * file; after it, every backend write that started below the previous end of file must be one of
 *   (a) a 32-byte rewrite of an existing chunk header in which bytes 16..27 (tag, rsv, chunk_meta, payload_length,
 *       payload_prev_length) are unchanged,
 *   (b) a rewrite of a track HEAD payload (+ footer) in which every 8-byte entry is unchanged or goes 0 -> offset of an
 *       existing chunk,
 * and the file never shrinks.  A symbolic watched byte below the previous end that is not inside a chunk header's link/crc
 * fields or a HEAD payload/footer must be unchanged.
 */
#include "common.h"
#include "membk.h"
#include "jls/core.h"
#include "jls/raw.h"
#include "jls/writer.h"
#include "jls/track.h"
#include "jls/wr_ts.h"
#include "jls/ec.h"

#ifndef KOPS
#define KOPS 2
#endif
#define MAXCH 13

static struct jls_core_s core;
static struct jls_core_ts_s ts_anno, ts_utc;
static uint8_t before[MEMBK_SIZE];
static int64_t len_before;

/* chunk map maintained by scanning the file (independent decoder: 32-byte headers, on-disk payload size from format.h) */
static int64_t ch_off[MAXCH];
static uint32_t ch_pay[MAXCH];
static uint8_t ch_tag[MAXCH];
static uint32_t n_ch;

int32_t jls_wr_ts_anno(struct jls_core_ts_s * self, int64_t timestamp, int64_t offset, enum jls_annotation_type_e t, uint8_t g, float y) {
    (void) self; (void) timestamp; (void) offset; (void) t; (void) g; (void) y; return 0;
}
int32_t jls_wr_ts_utc(struct jls_core_ts_s * self, int64_t sample_id, int64_t offset, int64_t utc) {
    (void) self; (void) sample_id; (void) offset; (void) utc; return 0;
}
int32_t jls_wr_ts_open(struct jls_core_ts_s ** instance, struct jls_core_signal_s * parent, enum jls_track_type_e track_type, uint32_t decimate_factor) {
    (void) parent; (void) decimate_factor;
    *instance = (track_type == JLS_TRACK_TYPE_UTC) ? &ts_utc : &ts_anno;
    return 0;
}
int32_t jls_wr_ts_close(struct jls_core_ts_s * self) { (void) self; return 0; }
int32_t jls_fsr_open(struct jls_core_fsr_s ** instance, struct jls_core_signal_s * parent) { (void) parent; *instance = NULL; return 0; }
int32_t jls_fsr_close(struct jls_core_fsr_s * self) { (void) self; return 0; }

static uint32_t on_disk(uint32_t payload_length) {
    return payload_length ? ((payload_length + 4 + 7) / 8) * 8 : 0;
}

static void scan_chunks(void) {
    n_ch = 0;
    int64_t pos = 32;
    for (unsigned k = 0; k < MAXCH; ++k) {
        if (pos + 32 <= membk_len) {
            struct jls_chunk_header_s h;
            memcpy(&h, membk_file + pos, 32);
            ch_off[n_ch] = pos;
            ch_pay[n_ch] = h.payload_length;
            ch_tag[n_ch] = h.tag;
            ++n_ch;
            pos += 32 + on_disk(h.payload_length);
        }
    }
}

static bool is_chunk_offset(uint64_t v) {
    bool found = false;
    for (unsigned k = 0; k < MAXCH; ++k) {
        if (k < n_ch && (uint64_t) ch_off[k] == v) {
            found = true;
        }
    }
    return found;
}

static void check_step(uint32_t log_from) {
    CHECK(membk_len >= len_before, "the file never shrinks");
    CHECK(membk_n_truncates == 0, "no truncate while writing");
    scan_chunks();         /* includes the chunks appended by this step: head-table entries may point to them */
    for (uint32_t i = 0; i < MEMBK_LOG; ++i) {
        if (i >= log_from && i < membk_n_writes) {
            int64_t pos = membk_log[i].pos;
            uint32_t cnt = membk_log[i].count;
            if (pos < len_before && cnt > 0) {
                /* in-place write: find the chunk it belongs to */
                bool ok = false;
                for (unsigned k = 0; k < MAXCH; ++k) {
                    if (k < n_ch && ch_off[k] < len_before) {
                        if (pos == ch_off[k] && cnt == 32) {
                            ok = true;        /* (a) header rewrite; content checked through the watched byte below */
                        }
                        bool is_head = ((ch_tag[k] & 0x27) == (0x20 | JLS_TRACK_CHUNK_HEAD));
                        if (is_head && pos == ch_off[k] + 32 && cnt == ch_pay[k]) {
                            ok = true;        /* (b) head table payload */
                        }
                        if (is_head && pos == ch_off[k] + 32 + (int64_t) ch_pay[k] && cnt == on_disk(ch_pay[k]) - ch_pay[k]) {
                            ok = true;        /* (b) head table padding + checksum */
                        }
                    }
                }
                CHECK(ok, "in-place write is neither a chunk header rewrite nor a track head-table rewrite");
                CHECK(pos + (int64_t) cnt <= len_before, "in-place write does not run over the previous end of file");
            }
        }
    }
    /* content: one symbolic byte of the previously written file */
    SYM_U32(wb);
    ASSUME((int64_t) wb < len_before && wb < MEMBK_SIZE);
    if (membk_file[wb] != before[wb]) {
        bool allowed = false;
        for (unsigned k = 0; k < MAXCH; ++k) {
            if (k < n_ch && ch_off[k] < len_before) {
                int64_t rel = (int64_t) wb - ch_off[k];
                if (rel >= 0 && rel < 32) {
                    /* header: link fields (0..15) and crc (28..31) may change; tag/meta/lengths (16..27) may not */
                    allowed = (rel < 16) || (rel >= 28);
                }
                bool is_head = ((ch_tag[k] & 0x27) == (0x20 | JLS_TRACK_CHUNK_HEAD));
                if (is_head && rel >= 32 && rel < 32 + (int64_t) on_disk(ch_pay[k])) {
                    if (rel < 32 + (int64_t) ch_pay[k]) {
                        /* head table entry: only 0 -> offset of an existing chunk */
                        int64_t e = (rel - 32) / 8;
                        uint64_t old_v, new_v;
                        memcpy(&old_v, before + ch_off[k] + 32 + 8 * e, 8);
                        memcpy(&new_v, membk_file + ch_off[k] + 32 + 8 * e, 8);
                        allowed = (old_v == 0) && is_chunk_offset(new_v);
                    } else {
                        allowed = true;   /* padding + checksum of the head table */
                    }
                }
            }
        }
        if (wb < 32) {
            allowed = false;              /* the file header only changes at close (not part of these steps) */
        }
        CHECK(allowed, "a byte of previously written content changed (payload, tag/meta/length fields, or a non-zero head entry)");
    }
}

#ifdef ORDER_CHECK
/* C03-O1 (crash consistency of the write order): an in-place write stores a pointer only to a chunk that was completely in the file
 * when that write was issued, so that a writer stopped between any two backend writes leaves no pointer to a missing or partial chunk. */
static bool complete_at(uint64_t v, int64_t fend) {
    bool ok = false;
    for (unsigned k = 0; k < MAXCH; ++k) {
        if (k < n_ch && (uint64_t) ch_off[k] == v && ch_off[k] + 32 + (int64_t) on_disk(ch_pay[k]) <= fend) {
            ok = true;
        }
    }
    return ok;
}

static void check_order(uint32_t log_from) {
    scan_chunks();
    /* at an operation boundary the head table of every track in the file is the one the writer holds in memory: what a writer stopped
     * here leaves behind reaches every chunk it has written through the head tables (a stale 0 entry hides a whole level) */
    for (unsigned t = 0; t < 4; ++t) {
        struct jls_core_track_s * tr = &core.signal_info[1].tracks[t];
        if (tr->head.offset) {
            SYM_U32(lv);
            ASSUME(lv < JLS_SUMMARY_LEVEL_COUNT);
            int64_t v;
            memcpy(&v, membk_file + tr->head.offset + 32 + 8 * lv, 8);
            CHECK(v == tr->head_offsets[lv], "the head table in the file equals the writer's in-memory head offsets at every operation boundary");
        }
    }
    for (uint32_t i = 0; i < MEMBK_LOG; ++i) {
        if (i >= log_from && i < membk_n_writes) {
            int64_t pos = membk_log[i].pos;
            uint32_t cnt = membk_log[i].count;
            int64_t fend = membk_log[i].fend_before;
            if (cnt > 0 && pos >= 32 && pos + (int64_t) cnt <= fend) {          /* in-place write behind the file header */
                for (unsigned k = 0; k < MAXCH; ++k) {
                    if (k < n_ch) {
                        if (pos == ch_off[k] && cnt == 32) {
                            uint64_t nx;
                            memcpy(&nx, membk_file + pos, 8);
                            CHECK(nx == 0 || complete_at(nx, fend), "a header rewrite links (item_next) only to a chunk that is already completely in the file");
                        }
                        bool is_head = ((ch_tag[k] & 0x27) == (0x20 | JLS_TRACK_CHUNK_HEAD));
                        if (is_head && pos == ch_off[k] + 32 && cnt == ch_pay[k]) {
                            for (unsigned e = 0; e < JLS_SUMMARY_LEVEL_COUNT; ++e) {
                                uint64_t v;
                                memcpy(&v, membk_file + pos + 8 * e, 8);
                                CHECK(v == 0 || complete_at(v, fend), "a head-table rewrite points only to chunks that are already completely in the file");
                            }
                        }
                    }
                }
            }
        }
    }
}
#endif

void harness(void) {
    membk_reset();
    struct jls_wr_s * wr = (struct jls_wr_s *) &core;
    core.buf = jls_buf_alloc();
    ASSUME(core.buf != NULL);
    for (unsigned s = 0; s < JLS_SIGNAL_COUNT; ++s) {
        core.signal_info[s].parent = &core;
        for (unsigned t = 0; t < 4; ++t) {
            core.signal_info[s].tracks[t].parent = &core.signal_info[s];
            core.signal_info[s].tracks[t].track_type = (uint8_t) t;
        }
    }
    ASSUME(0 == jls_raw_open(&core.raw, "f", "w"));
    /* what jls_wr_open does */
    static const struct jls_source_def_s src0 = {.source_id = 0, .name = "g", .vendor = "j", .model = "-", .version = "1", .serial_number = "-"};
    CHECK(0 == jls_wr_user_data(wr, 0, JLS_STORAGE_TYPE_INVALID, NULL, 0), "initial user data chunk");
    CHECK(0 == jls_wr_source_def(wr, &src0), "source 0");
    static const struct jls_signal_def_s sig1 = {.signal_id = 1, .source_id = 0, .signal_type = JLS_SIGNAL_TYPE_FSR, .data_type = JLS_DATATYPE_F32,
        .sample_rate = 1000, .samples_per_data = 16, .sample_decimate_factor = 16, .entries_per_summary = 10, .summary_decimate_factor = 10,
        .annotation_decimate_factor = 10, .utc_decimate_factor = 10, .name = "s", .units = "V"};
    CHECK(0 == jls_wr_signal_def(wr, &sig1), "signal 1 with its FSR/annotation/UTC tracks");

#ifdef ORDER_CHECK
    check_order(0);          /* the writes of open + definitions */
#endif
    for (unsigned step = 0; step < KOPS; ++step) {
        memcpy(before, membk_file, MEMBK_SIZE);
        len_before = membk_len;
        uint32_t log_from = membk_n_writes;
#if defined(OP1)
        /* operations are fixed per instance (a symbolic choice among 8 operations per step did not finish symex); their
         * arguments and payloads stay symbolic */
#ifdef OP3
        const uint8_t op = (step == 0) ? OP1 : ((step == 1) ? OP2 : OP3);
#else
        const uint8_t op = (step == 0) ? OP1 : OP2;
#endif
#else
        SYM_U8(op);
#endif
#if defined(PLEN1)
        /* per-step concrete payload lengths: PLEN1, PLEN2 (, PLEN3) -- e.g. 0, 0, 5: two payload-less chunks in one list, then a non-empty one */
        const uint32_t plen = (step == 0) ? PLEN1 : ((step == 1) ? PLEN2 : PLEN3);
#elif defined(PLEN_FIXED)
        const uint32_t plen = PLEN_FIXED;    /* concrete sizes keep every file offset concrete (field-sensitive file image) */
#else
        SYM_U32(plen);
        ASSUME(plen <= 8);
#endif
        uint8_t pay[24];
        SYM_BYTES(pay, 8, "pay");
        memset(pay + 8, 0, 16);
        struct jls_payload_header_s ph = {.timestamp = 100 + step, .entry_count = 1, .entry_size_bits = 32, .rsv16 = 0};
        memcpy(pay, &ph, sizeof(ph) <= 16 ? sizeof(ph) : 16);
        switch (op % 8) {
            case 0: jls_core_wr_data(&core, 1, JLS_TRACK_TYPE_FSR, pay, 16 + plen); break;
            case 1: jls_core_wr_index(&core, 1, JLS_TRACK_TYPE_FSR, 1 + (plen & 1), pay, 16 + 8); break;
            case 2: jls_core_wr_summary(&core, 1, JLS_TRACK_TYPE_FSR, 1 + (plen & 1), pay, 16 + plen); break;
            case 3: jls_wr_annotation(wr, 1, 5 + step, 1.0f, JLS_ANNOTATION_TYPE_USER, 0, JLS_STORAGE_TYPE_BINARY, pay, plen); break;
            case 4: jls_wr_utc(wr, 1, 10 + step, 1000 + step); break;
            case 5: {
#ifdef USERDATA_NULL
                const uint8_t nul = (step == 0) ? 1 : 0;     /* first call with a NULL payload (rejected), then a valid one */
#else
                const uint8_t nul = 0;
#endif
                jls_wr_user_data(wr, 0x123, JLS_STORAGE_TYPE_BINARY, (nul & 1) ? NULL : pay, plen);
                break;
            }
            case 6: {
                static const struct jls_source_def_s s1 = {.source_id = 1, .name = "a", .vendor = "b", .model = "c", .version = "d", .serial_number = "e"};
                static const struct jls_source_def_s s2 = {.source_id = 2, .name = "f", .vendor = "g", .model = "h", .version = "i", .serial_number = "j"};
                jls_wr_source_def(wr, (step == 0) ? &s1 : &s2);
                break;
            }
            default: jls_wr_annotation(wr, 0, 7 + step, 2.0f, JLS_ANNOTATION_TYPE_TEXT, 1, JLS_STORAGE_TYPE_BINARY, pay, plen); break;
        }
#ifdef ORDER_CHECK
        check_order(log_from);
#else
        check_step(log_from);
#endif
    }
    WITNESS_END();
}
