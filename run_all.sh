#!/bin/bash
# run every claimed check of MANIFEST.json in the given tier, one after the other; summary at the end
tier=${1:-quick}
cd /verif
ids=$(python3 -c "import json; print(' '.join(c['property_id'] for c in json.load(open('MANIFEST.json'))['checks']))")
for p in $ids; do
  s=$(date +%s)
  python3 run.py $p --tier $tier > /tmp/all_${tier}_$p.log 2>&1; rc=$?
  e=$(date +%s)
  echo "$p exit=$rc wall=$((e-s))s $(grep ' done:' /tmp/all_${tier}_$p.log | cut -c1-120)"
done
