from vlib import Obl, PORTFOLIO

TITLE = 'Statistics accumulators are consistent under add, compute and combine'
LEVEL_TEXT = ('bounded symbolic verification of the real statistics.c: count/min/max exact for arbitrary finite doubles/floats and every split; '
              's>=0, min<=mean<=max, route agreement within a stated tolerance and aliasing bit-identity on the int8 grid; identity of combine with empty')
TRUSTED = ['cbmc 6.11 IEEE-754 bit-blasting (round-to-nearest-even)', 'harness/c20_stats.c', 'tolerances 1e-9 (mean) / 1e-6 (s) on the int8 grid']
OUTSIDE = ['mean/variance agreement across groupings for general doubles and magnitudes over many decades (FP miter does not return)',
           'N above the stated bound (4 quick / 5-6 thorough)', 'more than one level of combine nesting']
EXPLANATION = ('KMM: N symbolic samples (arbitrary finite values), symbolic count and split point; the six routes compute_f64 / add one at a time / '
               'combine(fresh) / combine(tgt==a) / combine(tgt==b) / compute_f32 must give identical k, min, max. GRID: samples range over all int8 '
               'values (exactly the sample domain of <=8-bit integer signals); s>=0, var>=0, min<=mean<=max, mean and s agree across routes within '
               'tolerance, and the aliased combines are bit-identical to the non-aliased one. EMPTY: combine with an empty operand is the bitwise identity '
               'for arbitrary operand contents, in all aliasing configurations.')


def obligations(tier):
    o = []
    pf = PORTFOLIO
    n_k = 4 if tier == 'quick' else 6
    n_g = 3 if tier == 'quick' else 4      # N<=5 (thorough) did not return in 2400 s
    to = 600 if tier == 'quick' else 1500
    o.append(Obl('KMM_f32', 'c20_stats.c', units=['statistics.c'], defines=['MODE_KMM=1'], unwind=9, timeout=to, backend=pf,
                 flags=['--slice-formula'],
                 ladder=[('N<=%d' % n_k, ['NMAX=%d' % n_k], None, None), ('N<=3', ['NMAX=3'], None, None)],
                 desc='count/min/max identical on all six routes, samples arbitrary finite floats', bound='N per rung; one split point',
                 assumes=['samples are finite (no NaN/Inf), as in the property statement']))
    o.append(Obl('KMM_f64', 'c20_stats.c', units=['statistics.c'], defines=['MODE_KMM=1', 'KMM_F64=1'], unwind=9, timeout=to, backend=pf,
                 flags=['--slice-formula'],
                 ladder=[('N<=%d' % n_k, ['NMAX=%d' % n_k], None, None), ('N<=3', ['NMAX=3'], None, None)],
                 desc='count/min/max identical on the five f64 routes, samples arbitrary finite doubles', bound='N per rung; one split point',
                 assumes=['samples are finite (no NaN/Inf), as in the property statement']))
    routes = [('ADD', False)] if tier == 'quick' else [('ADD', False), ('F32', False), ('COMBINE', False)]
    for route, tiny in routes:
        o.append(Obl('GRID_%s' % route, 'c20_stats.c', units=['statistics.c'], defines=['MODE_GRID=1', 'G_%s=1' % route], unwind=9, timeout=to, backend=PORTFOLIO,
                     ladder=[('N<=2', ['NMAX=2'], None, None)],      # N<=3 on the int8 grid did not return in 2400 s on any route
                     desc='compute_f64 vs %s: s>=0, var>=0, min<=mean<=max, min/max exact, mean/s agree within tolerance; samples = all int8 values' % route,
                     bound='N per rung; one split point; value grid int8'))
    o.append(Obl('GRID_COMBINE_tiny', 'c20_stats.c', units=['statistics.c'], defines=['MODE_GRID=1', 'G_COMBINE=1', 'TINY_GRID=1'], unwind=9, timeout=to, backend=PORTFOLIO,
                 ladder=[('N<=3', ['NMAX=3'], None, None), ('N<=2', ['NMAX=2'], None, None)],
                 desc='compute_f64 vs combine of every split: s>=0, var>=0, min<=mean<=max, min/max exact, mean/s agree within tolerance; samples on the 8-value grid',
                 bound='N per rung; every split point; 8-value grid {-5,-2,-1,0,1,2,3,7}'))
    o.append(Obl('GRID_ALIAS', 'c20_stats.c', units=['statistics.c'], defines=['MODE_GRID=1', 'G_ALIAS=1', 'TINY_GRID=1'], unwind=9, timeout=to, backend=pf,
                 ladder=[('N<=%d' % n_g, ['NMAX=%d' % n_g], None, None), ('N<=3', ['NMAX=3'], None, None), ('N<=2', ['NMAX=2'], None, None)],
                 desc='combine(tgt==a) and combine(tgt==b) bit-identical to combine(fresh); samples on the 8-value grid {-5,-2,-1,0,1,2,3,7}',
                 bound='N per rung; one split point; 8-value grid (a full-domain FP miter does not return)'))
    o.append(Obl('EMPTY_identity', 'c20_stats.c', units=['statistics.c'], defines=['MODE_EMPTY=1'], unwind=4, timeout=300,
                 desc='combine with an empty accumulator is the bitwise identity (all aliasing configurations), arbitrary operand bits',
                 bound='all 2^320 operand contents with k>=1'))
    return o
