#!/usr/bin/env python3
"""Entry point.  run.py <PROPERTY-ID> [--tier quick|thorough] [--only substr]   |   run.py --replay <file>"""
import argparse
import importlib
import os
import re
import sys

sys.path.insert(0, os.path.dirname(os.path.abspath(__file__)))
import vlib  # noqa: E402


def load(prop):
    return importlib.import_module('props.' + prop)


def main():
    ap = argparse.ArgumentParser()
    ap.add_argument('prop', nargs='?')
    ap.add_argument('--tier', default=os.environ.get('VERIF_TIER', 'quick'))
    ap.add_argument('--only', default=None, help='run only obligations whose name contains this substring')
    ap.add_argument('--replay', default=None)
    a = ap.parse_args()
    if a.replay:
        return do_replay(a.replay)
    if not a.prop:
        ap.error('property id required')
    tier = a.tier if a.tier in ('quick', 'thorough') else 'quick'
    mod = load(a.prop)
    obls = mod.obligations(tier)
    if a.only:
        obls = [o for o in obls if a.only in o.name]
    rc = vlib.run_property(a.prop, mod.TITLE, obls, tier, mod.LEVEL_TEXT, mod.TRUSTED, mod.OUTSIDE, mod.EXPLANATION)
    return rc


def do_replay(path):
    hdr = {}
    defines = []
    for line in open(path):
        if not line.startswith('#'):
            break
        m = re.match(r'# property=(\S+) obligation=(\S+) rung=(\S+)', line)
        if m:
            hdr.update(prop=m.group(1), obl=m.group(2), rung=m.group(3))
        m = re.match(r'# defines: (.*)', line)
        if m:
            defines = m.group(1).split()
        m = re.match(r'# failed: (.*)', line)
        if m:
            hdr['failed'] = m.group(1)
    mod = load(hdr['prop'])
    obl = None
    for tier in ('quick', 'thorough'):
        for o in mod.obligations(tier):
            if vlib._safe(o.name) == hdr['obl'] or o.name == hdr['obl']:
                obl = o
                break
        if obl:
            break
    if obl is None:
        print('obligation %s not found' % hdr['obl'])
        return 2
    xdefs = [d for d in defines if d not in obl.defines]
    wd = os.path.join(vlib.BUILD, hdr['prop'], 'replay_' + vlib._safe(obl.name))
    exe = vlib.build_native(obl, wd, xdefs)
    kind, out = vlib.run_replay(exe, os.path.abspath(path), timeout=30)
    print('counterexample for: %s' % hdr.get('failed'))
    print('replay result: %s' % kind)
    print(out[-3000:])
    return 1 if kind in ('assert', 'memory', 'crash', 'hang') else 0


if __name__ == '__main__':
    sys.exit(main())
