from vlib import Obl, PORTFOLIO

TITLE = 'Copy preserves everything the reader can see'
LEVEL_TEXT = ('bounded symbolic verification of the real jls_copy (copy.c + buffer.c) between a chunk feeder at the jls_raw_* seam and a recording sink at the jls_wr_* seam: '
              'for every content-bearing chunk kind, the writer call receives exactly the parsed fields of a symbolic chunk')
TRUSTED = ['cbmc 6.11', 'feeder/sink stubs in harness/c17_copy.c (contracts of jls_raw_rd_header/jls_raw_rd_payload/jls_wr_*)',
           'composition: what the writer does with the re-issued calls is decided under C01/C09/C13/C15; what the reader returns from it under C01']
OUTSIDE = ['end-to-end equality of reader dumps of the two files (whole program over two files)', 'files with several chunks per query (one chunk + end of file per query)',
           'level-0 blocks omitted in the source (no DATA chunk exists for them, see known finding in DESIGN.md)', 'unreadable chunks / scan-and-skip path', 'originals left unclosed']
EXPLANATION = ('One query per chunk kind (USER_DATA, ANNOTATION DATA, UTC DATA, FSR DATA, SOURCE_DEF, SIGNAL_DEF): the feeder presents a chunk with symbolic chunk_meta and symbolic '
               'payload (definition payloads are encoded in the harness from symbolic fields per format.h); after the real jls_copy returns, the recorded writer call must carry the same ids '
               '(all 12 bits), storage types, timestamps, sizes, bytes, strings and definition parameters; reserved source/signal 0 and the initial user-data chunk are not re-issued; '
               'the destination is closed.')

HOOKS = ['JLS_VERIF_SIGNAL_COUNT=2', 'JLS_VERIF_SOURCE_COUNT=2', 'JLS_VERIF_BUF_DEFAULT_SIZE=256', 'JLS_VERIF_BUF_STRING_SIZE=64']


def obligations(tier):
    o = []
    kinds = [('USER_DATA', ['NFIX=11']), ('USER_DATA', ['NFIX=0']), ('ANNOTATION', ['NFIX=7']), ('UTC', []), ('FSR', [])]
    if tier == 'thorough':
        # SIGNAL and SOURCE definition chunks (KIND_SIGNAL / KIND_SOURCE of the harness, symbolic strings through jls_buf_rd_str): no verdict in 3000 s -> not claimed
        kinds += [('USER_DATA', ['NFIX=24']), ('ANNOTATION', ['NFIX=0']), ('ANNOTATION', ['NFIX=12'])]
    for kind, extra in kinds:
        nm = 'O1_copy_%s%s' % (kind.lower(), ('_len' + extra[0].split('=')[1]) if extra else '')
        o.append(Obl(nm, 'c17_copy.c', units=['copy.c', 'buffer.c'], defines=HOOKS + ['KIND_%s=1' % kind] + extra, unwind=12,
                     unwind_text=[('harness', r'SYM_BYTES', 50), ('jls_wr_user_data', r'i < PAYMAX', 180), ('jls_raw_rd_payload', r'i < PAYMAX', 180),
                                  ('jls_buf_rd_str', r'while \\(self->cur != self->end\\)', 7), ('jls_buf_rd_str', r'while \\(str < s->cur\\)', 2),
                                  ('jls_buf_realloc', r'while \\(alloc_size < size\\)', 3), ('put_str', r'i < 3', 5), ('save_str', r'k < ', 10)],
                     timeout=900 if kind not in ('SOURCE', 'SIGNAL') else 3000, backend=PORTFOLIO, typed_calloc=True,
                     desc='jls_copy re-issues a symbolic %s chunk with exactly its parsed fields' % kind,
                     bound='one chunk of this kind + end of file; payload sizes as in the harness (payload length fixed per instance where given)'))
    return o
