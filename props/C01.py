from vlib import Obl, PORTFOLIO

TITLE = 'FSR samples round-trip bit-exactly for every type, chunking and read window'
LEVEL_TEXT = ('bounded symbolic verification of the real writer packer (wr_fsr.c) and reader copy kernel (core.c) at internal seams, one instance per sample width; '
              'assume/guarantee composition through the block stream; bounds on block size, call count and window stated per obligation')
TRUSTED = ['cbmc 6.11', 'recording stubs at jls_core_wr_data / jls_core_fsr_summary1 / jls_raw_chunk_tell (writer) and jls_core_rd_fsr_data0 (reader)',
           'specification stream oracle in harness/c01_packer.c, c01_reader.c', 'log_stub.c', 'size hooks']
OUTSIDE = ['block sizes other than the small ones used (the packer and the copy kernel are generic in the block size, but that is not proved)',
           'more than 3 write calls / 3 blocks per query', 'definitions with more than 4 index levels', 'end-to-end composition through a real file (argued, not solved)']
EXPLANATION = ('O1 writer packer: 2-3 jls_wr_fsr_data calls with symbolic lengths, first id and bytes; every completed block is observed at the jls_core_fsr_summary1 seam; '
               'a symbolic watched sample compares the block stream with the written stream bit for bit; block structure, length, payload at the jls_core_wr_data seam, '
               'partial last block at close; caller buffers end at the end of their object so any read past the documented size is a pointer failure. '
               'O2 reader copy kernel: jls_core_fsr over a symbolic block store with symbolic window.')

HOOKS = ['JLS_VERIF_SIGNAL_COUNT=2', 'JLS_VERIF_SOURCE_COUNT=2', 'JLS_VERIF_FSR_BUFFER_U64=2', 'JLS_VERIF_BUF_DEFAULT_SIZE=256', 'JLS_VERIF_BUF_STRING_SIZE=64']
WIDTHS = [1, 4, 8, 16, 24, 32, 64]
BLOCKS = {1: 16, 4: 8, 8: 4, 16: 4, 24: 2, 32: 2, 64: 2}


def packer(name, bits, ncalls, dmin, dmax, timeout, extra=(), nmax=None, desc='', tiers=('quick', 'thorough')):
    block = BLOCKS[bits]
    nmax = nmax or (2 * block + 1)
    callbytes = (nmax * bits + 7) // 8
    tmax = ncalls * nmax + (ncalls - 1) * max(dmax, 0)
    maxblk = tmax // block + 2
    unwind = max(callbytes, maxblk, (block * bits) // 8, 8, ncalls, block) + 3
    blkbytes = (block * bits) // 8
    ov = dmin < 0
    gap = dmax > 0
    scratch = 16                                      # bytes (hook: 2 words)
    fill_per_iter = max(1, (scratch * 8) // bits)    # samples per gap-fill iteration
    ut = [
        ('wr_data_inner', r'while \(data_length\)', (nmax + max(dmax, 0)) // block + 3),
        # the carry loop exists only for sub-byte widths; for >= 8-bit samples the branch is infeasible (cut; the unwinding assertion justifies it)
        ('wr_data_inner', r'while \(bits\)', (blkbytes + 3) if bits < 8 else 1),
        ('wr_data_inner', r'ROE\(', 2),
        ('is_mem_const', r'while \(m < m_end\)', (blkbytes + 2) if bits <= 8 else 1),
        ('jls_fsr_close', r'for \(size_t i = 1', 17),
        # gap/overlap branches: bounded when the obligation allows them, cut (bound 1) when delta excludes them
        ('jls_wr_fsr_data', r'while \(data_length\)', 4 if (ov and bits < 8) else 1),
        ('jls_wr_fsr_data', r'idx < sz;', (min(scratch, callbytes) + 2) if (ov and bits < 8) else 1),
        ('jls_wr_fsr_data', r'idx < buf_sz', (scratch // 4 + 2) if gap else 1),
        ('jls_wr_fsr_data', r'sizeof\(double\)', (scratch // 8 + 2) if gap else 1),
        ('jls_wr_fsr_data', r'while \(skip\)', ((max(dmax, 0) + fill_per_iter - 1) // fill_per_iter + 2) if gap else 1),
        ('jls_wr_fsr_data', r'ROE\(|JLS_LOG', 2),
    ]
    us = []
    ob = Obl(name, 'c01_packer.c', units=['wr_fsr.c'], seams={'wr_fsr.c': ['jls_core_fsr_summary1']},
               defines=HOOKS + ['BITS=%d' % bits, 'NCALLS=%d' % ncalls, 'DMIN=%d' % dmin, 'DMAX=%d' % dmax, 'NMAX=%d' % nmax] + list(extra),
               unwind=unwind, unwindset=us, objbits=12, timeout=timeout, backend=PORTFOLIO, tiers=tiers, mem_gb=24,
               desc=desc or 'writer packer, %d-bit samples, %d calls, block %d samples' % (bits, ncalls, block),
               bound='block=%d samples, <=%d samples per call, %d calls, delta in [%d,%d], first id within +-2^40, scratch 2 words (hook)' % (block, nmax, ncalls, dmin, dmax),
               assumes=['each call starts at or after the first sample id', 'jls_core_wr_data stub models the real function only by remembering the last data chunk offset'])
    ob.unwind_text = ut
    return ob


def reader(name, bits, nblk, timeout, tiers=('quick', 'thorough')):
    block = BLOCKS[bits]
    blkbytes = (block * bits) // 8
    ob = Obl(name, 'c01_reader.c', units=['core.c', 'buffer.c'], seams={'core.c': ['jls_core_rd_fsr_data0']},
             defines=['JLS_VERIF_SIGNAL_COUNT=2', 'JLS_VERIF_SOURCE_COUNT=2', 'JLS_VERIF_FSR_BUFFER_U64=2', 'JLS_VERIF_BUF_DEFAULT_SIZE=64', 'JLS_VERIF_BUF_STRING_SIZE=16',
                      'BITS=%d' % bits, 'NBLK=%d' % nblk],
             unwind=max(nblk * blkbytes + 6, nblk + 5, 12), timeout=timeout, backend=PORTFOLIO, tiers=tiers, objbits=10,
             desc='reader copy kernel jls_core_fsr, %d-bit samples, symbolic window over %d blocks of %d samples, symbolic first sample id' % (bits, nblk, block),
             bound='signal of 1..%d samples in %d blocks, any window inside it, |first id| < 2^40' % (nblk * block, nblk),
             assumes=['jls_core_rd_fsr_data0 stub = contract of the real function (block that contains the id, header + packed samples)', 'cached signal length'])
    return ob


def obligations(tier):
    o = []
    o.append(Obl('O3_level1_cache_keyed_by_signal', 'c04_errprop.c', units=['core.c', 'reader.c', 'buffer.c'],
                 defines=['JLS_VERIF_SIGNAL_COUNT=3', 'JLS_VERIF_SOURCE_COUNT=2', 'JLS_VERIF_FSR_BUFFER_U64=2', 'JLS_VERIF_BUF_DEFAULT_SIZE=160', 'JLS_VERIF_BUF_STRING_SIZE=32',
                          'JLS_VERIF_F64_BUF_LENGTH_MIN=16', 'ENTRY=9'],
                 unwind=18, unwind_text=[('feed', r'SYM_BYTES', 66), ('jls_core_rd_chunk', r'while \\(1\\)', 3)], typed_calloc=True, timeout=600, backend=PORTFOLIO, objbits=10,
                 desc='jls_core_rd_fsr_level1 on signal 1 then signal 2 (symbolic sample ids inside the same cached range): the cached level-1 index/summary always belong to the signal being read; '
                      'a repeated read on the same signal reuses the cache',
                 bound='two signals, one level-1 index chunk each, chunk payload bytes symbolic',
                 assumes=['chunks are served by a feeder at the jls_raw_rd seam']))
    for bits in WIDTHS:
        o.append(reader('O2_reader_w%d' % bits, bits, 3 if bits < 64 else 2, 600 if tier == 'quick' else 1800))
    for bits in WIDTHS:
        o.append(packer('O1_packer_w%d_1call' % bits, bits, 1, 0, 0, 300))
        o.append(packer('O1_packer_w%d_2calls' % bits, bits, 2, 0, 0, 600 if tier == 'quick' else 1800, nmax=BLOCKS[bits] + 3))
    if tier == 'thorough':
        for bits in WIDTHS:
            o.append(packer('O1_packer_w%d_3calls' % bits, bits, 3, 0, 0, 2400, tiers=('thorough',)))
    return o
