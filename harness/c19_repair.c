/* C19/C03: the real jls_track_repair_pointers (src/track.c, with jls_core_rd_chunk / jls_core_update_chunk_header of core.c) on
 * a timestamped track of a truncated file, over the chunk-store model of the raw layer (rawstore.h).
 * The track as a crash leaves it (concrete shape, symbolic contents):
 *   chunk 0   track HEAD, payload = head offsets: [0] -> first DATA chunk, [1] = 0 or the offset of a level-1 INDEX chunk
 *             that was lost with the cut (per instance), [2..15] = 0
 *   chunk 1..ND  DATA chunks linked by item_next; the last one points to a chunk that was lost with the cut (per instance:
 *             the cut position itself or beyond), or is 0 when the cut fell between two writes; payload bytes symbolic
 * After the repair the file must be self-consistent, so that a later open (which does not repair again: the file gets an END
 * chunk) reads the same as the repairing open:
 *   - the head offsets stored in the HEAD chunk equal the in-memory ones the repairing open goes on to use
 *   - no head offset and no item_next of the surviving chain points to something that is not a chunk of the file
 *   - the surviving chain itself is untouched
 */
#include "common.h"
#include "rawstore.h"
#include "jls/core.h"
#include "jls/raw.h"
#include "jls/track.h"
#include "jls/util.h"
#include "jls/ec.h"

#ifndef ND
#define ND 3
#endif
#ifndef TRACK
#define TRACK JLS_TRACK_TYPE_ANNOTATION
#endif

static struct jls_core_s core;

#define OFF(k) (ST_BASE + (int64_t) ST_STRIDE * (k))
#define CUT OFF(ND + 1)          /* where the file was cut = where the repair goes on to append */
#ifndef LOST_INDEX
#define LOST_INDEX CUT
#endif
#ifndef DANGLING
#define DANGLING CUT
#endif

void harness(void) {
    struct jls_core_signal_s * sig = &core.signal_info[1];
    sig->parent = &core;
    sig->signal_def.signal_id = 1;
    sig->signal_def.signal_type = JLS_SIGNAL_TYPE_FSR;
    sig->chunk_def.offset = 64;
    struct jls_core_track_s * track = &sig->tracks[TRACK];
    track->parent = sig;
    track->track_type = TRACK;
    core.raw = &st_raw;
    core.buf = jls_buf_alloc();
    ASSUME(core.buf != NULL);

    /* head offset of level 1 (none, or a chunk lost with the cut) and item_next of the last surviving DATA chunk: concrete per instance.
     * Symbolic offsets make every access of the store model a symbolic-index access (11 GB, no verdict). */
    const int64_t lost_index = LOST_INDEX;
    const int64_t dangling = DANGLING;

    /* chunk 0: HEAD */
    st_hdr[0].tag = jls_track_tag_pack(TRACK, JLS_TRACK_CHUNK_HEAD);
    st_hdr[0].chunk_meta = 1;
    st_hdr[0].payload_length = JLS_SUMMARY_LEVEL_COUNT * sizeof(int64_t);
    int64_t heads[JLS_SUMMARY_LEVEL_COUNT];
    memset(heads, 0, sizeof(heads));
    heads[0] = OFF(1);
    heads[1] = lost_index;
    memcpy(st_pay[0], heads, sizeof(heads));
    /* DATA chunks */
    for (unsigned k = 1; k <= ND; ++k) {
        st_hdr[k].tag = jls_track_tag_pack(TRACK, JLS_TRACK_CHUNK_DATA);
        st_hdr[k].chunk_meta = 1;
        st_hdr[k].payload_length = 32;
        st_hdr[k].item_prev = (k > 1) ? (uint64_t) OFF(k - 1) : 0;
        st_hdr[k].item_next = (k < ND) ? (uint64_t) OFF(k + 1) : (uint64_t) dangling;
        for (unsigned b = 0; b < 32; ++b) { SYM_SET(uint8_t, st_pay[k][b], "payload"); }
    }
    st_n = ND + 1;
    st_last_payload_length = 32;
    st_pos = OFF(ND + 1);
    /* in-memory state as jls_core_scan_signals leaves it */
    track->head.offset = OFF(0);
    track->head.hdr = st_hdr[0];
    memcpy(track->head_offsets, heads, sizeof(heads));

    int32_t rc = jls_track_repair_pointers(track);
    CHECK(rc == 0, "pointer repair succeeds");
    CHECK(st_n == ND + 1, "pointer repair appends nothing");

    int64_t disk[JLS_SUMMARY_LEVEL_COUNT];
    memcpy(disk, st_pay[0], sizeof(disk));
    SYM_U32(lv);
    ASSUME(lv < JLS_SUMMARY_LEVEL_COUNT);
    CHECK(disk[lv] == track->head_offsets[lv], "the head offsets stored in the file equal the in-memory ones the repairing open goes on to use");
    CHECK(disk[lv] == 0 || st_index(disk[lv]) >= 0, "no stored head offset points to something that is not a chunk of the file");
#if ND > 0
    CHECK(disk[0] == OFF(1), "the first DATA chunk stays the head of level 0");
    SYM_U32(wk);
    ASSUME(wk >= 1 && wk <= ND);
    CHECK(st_hdr[wk].item_next == 0 || st_index((int64_t) st_hdr[wk].item_next) >= 0, "no item_next of the surviving chain points to something that is not a chunk of the file");
    if (wk < ND) {
        CHECK(st_hdr[wk].item_next == (uint64_t) OFF(wk + 1), "links between surviving chunks are untouched");
    }
    CHECK(st_hdr[wk].item_prev == ((wk > 1) ? (uint64_t) OFF(wk - 1) : 0) && st_hdr[wk].payload_length == 32 && st_hdr[wk].chunk_meta == 1
          && st_hdr[wk].tag == jls_track_tag_pack(TRACK, JLS_TRACK_CHUNK_DATA), "the rest of every surviving header is untouched");
#endif
    CHECK(st_inplace_pay <= 1, "the only payload rewritten is the HEAD chunk's");
    WITNESS_END();
}
