/* C18: CRC-32C.  The real implementation is pulled into this TU through the real dispatch unit
 * src/crc32c.c (exactly as the library build does): with JLS_OPTIMIZE_CRC_DISABLE it includes
 * crc32c_sw.c (slicing-by-8 tables), otherwise on x86-64 crc32c_intel_sse4.c.
 * Reference R: bit-serial reflected CRC-32C, polynomial 0x82F63B78, init/xorout 0xFFFFFFFF.
 *
 * MODE_TABLES   : every entry of the 8 slicing tables = register after byte x and k zero bytes   (sw)
 * MODE_ADDITIVE : every table is GF(2)-additive: T[x^y] == T[x]^T[y]                              (sw)
 * MODE_SPAN     : jls_crc32c(buf+off, n) == R for all off<8, n<=MAXN on buffers that are zero except one
 *                 set bit at a symbolic byte/bit position (plus the all-zero buffer = affine part)
 * MODE_FULL     : jls_crc32c(buf+off, n) == R for all off<8, n<=NFULL with all bytes symbolic
 * MODE_HDR      : jls_crc32c_hdr(h) == jls_crc32c((uint8_t*)h,28) == R on the spanning set of the 28 bytes,
 *                 and bytes 28..31 (the crc field) do not influence the result
 * MODE_HDRFULL  : jls_crc32c_hdr(h) == jls_crc32c((uint8_t*)h,28) with all 32 header bytes symbolic
 */
#include "common.h"
#include "jls/format.h"
#include "crc32c.c"

#if defined(C18_HW) && !defined(REPLAY)
/* Model of the SSE4.2 CRC32 instruction (Intel SDM vol.2 "CRC32 — Accumulate CRC32 Value"):
 * polynomial 0x11EDC6F41, bit-reflected operands; equivalent LSB-first formulation. Trusted. */
static unsigned int crc32_model(unsigned int crc, unsigned long long v, int bits) {
    for (int i = 0; i < bits; ++i) {
        unsigned int b = (crc ^ (unsigned int) (v >> i)) & 1u;
        crc = (crc >> 1) ^ (0x82F63B78u & (0u - b));
    }
    return crc;
}
unsigned int __builtin_ia32_crc32qi(unsigned int c, unsigned char v) { return crc32_model(c, v, 8); }
unsigned int __builtin_ia32_crc32hi(unsigned int c, unsigned short v) { return crc32_model(c, v, 16); }
unsigned int __builtin_ia32_crc32si(unsigned int c, unsigned int v) { return crc32_model(c, v, 32); }
unsigned long long __builtin_ia32_crc32di(unsigned long long c, unsigned long long v) { return crc32_model((unsigned int) c, v, 64); }
#endif

static uint32_t ref_step(uint32_t crc, uint8_t byte) {
    crc ^= byte;
    for (int j = 0; j < 8; ++j) {
        crc = (crc >> 1) ^ (0x82F63B78u & (0u - (crc & 1u)));
    }
    return crc;
}

static uint32_t ref_crc(const uint8_t * p, uint32_t n) {
    uint32_t crc = 0xFFFFFFFFu;
    for (uint32_t i = 0; i < n; ++i) {
        crc = ref_step(crc, p[i]);
    }
    return crc ^ 0xFFFFFFFFu;
}

#ifndef MAXN
#define MAXN 24
#endif
#ifndef NFULL
#define NFULL 3
#endif

void harness(void) {
#if defined(MODE_TABLES)
    SYM_U8(x);
    const uint32_t * tab[8] = {crc_tableil8_o32, crc_tableil8_o40, crc_tableil8_o48, crc_tableil8_o56,
                               crc_tableil8_o64, crc_tableil8_o72, crc_tableil8_o80, crc_tableil8_o88};
    uint32_t r = ref_step(0, x);
    for (int k = 0; k < 8; ++k) {
        CHECK(tab[k][x] == r, "slicing table entry equals the register after byte x and k zero bytes");
        r = ref_step(r, 0);
    }
#elif defined(MODE_ADDITIVE)
    SYM_U8(x);
    SYM_U8(y);
    const uint32_t * tab[8] = {crc_tableil8_o32, crc_tableil8_o40, crc_tableil8_o48, crc_tableil8_o56,
                               crc_tableil8_o64, crc_tableil8_o72, crc_tableil8_o80, crc_tableil8_o88};
    for (int k = 0; k < 8; ++k) {
        CHECK(tab[k][x ^ y] == (tab[k][x] ^ tab[k][y]), "slicing table is GF(2)-additive");
    }
#elif defined(MODE_SPAN)
    static uint64_t store[(MAXN + 16) / 8 + 1];   /* 8-byte aligned base; alignment of the data = off */
    uint8_t * base = (uint8_t *) store;
    SYM_U32(off);
    SYM_U32(n);
    SYM_U32(pos);
    SYM_U8(bit);
    ASSUME(bit <= 8);
    /* GF(2) basis of the data space: one set BIT at a symbolic position (bit==8: the all-zero buffer) */
    uint8_t val = (bit < 8) ? (uint8_t) (1u << bit) : 0;
    ASSUME(off < 8 && n <= MAXN && pos < MAXN);
#ifdef FIX_OFF
    ASSUME(off == FIX_OFF);
#endif
    if (pos < n) {
        base[off + pos] = val;
    }
    uint32_t got = jls_crc32c(base + off, n);
    uint32_t want = ref_crc(base + off, n);
    CHECK(got == want, "jls_crc32c equals bit-serial CRC-32C on the spanning set (one non-zero byte / all-zero)");
#elif defined(MODE_FULL)
    static uint64_t store[(NFULL + 16) / 8 + 1];
    uint8_t * base = (uint8_t *) store;
    SYM_U32(off);
    SYM_U32(n);
    ASSUME(off < 8 && n <= NFULL);
    SYM_BYTES(base + off, NFULL, "data");
    uint32_t got = jls_crc32c(base + off, n);
    uint32_t want = ref_crc(base + off, n);
    CHECK(got == want, "jls_crc32c equals bit-serial CRC-32C, all bytes symbolic");
#elif defined(MODE_HDR)
    static struct jls_chunk_header_s h;    /* zero-initialised, naturally 8-byte aligned */
    uint8_t * b = (uint8_t *) &h;
    SYM_U32(pos);
    SYM_U8(bit);
    SYM_U32(crcfield);
    ASSUME(pos < 28 && bit <= 8);
    uint8_t val = (bit < 8) ? (uint8_t) (1u << bit) : 0;
    b[pos] = val;
    h.crc32 = crcfield;
    uint32_t got = jls_crc32c_hdr(&h);
    CHECK(got == jls_crc32c(b, 28), "jls_crc32c_hdr equals jls_crc32c over the first 28 header bytes (spanning set)");
    CHECK(got == ref_crc(b, 28), "jls_crc32c_hdr equals bit-serial CRC-32C over 28 bytes, independent of the crc field");
#elif defined(MODE_HDRFULL)
    static struct jls_chunk_header_s h;
    uint8_t * b = (uint8_t *) &h;
    SYM_BYTES(b, 32, "hdr");
    CHECK(jls_crc32c_hdr(&h) == jls_crc32c(b, 28), "jls_crc32c_hdr equals jls_crc32c over the first 28 bytes, all header bytes symbolic");
#else
#error "no MODE"
#endif
    WITNESS_END();
}
