/* C15-O2 (block level): the real jls_core_rd_fsr_data0 + reconstruct_omitted_chunk (src/core.c) load the block that holds a
 * requested sample.  Seams: jls_core_rd_fsr_level1 (provides the cached level-1 index + summary covering the request) and
 * jls_core_rd_chunk / jls_raw_chunk_seek (serve the stored DATA chunks).
 * Signal of 3 blocks: two stored with symbolic bytes, block OMIT (1 = middle, 2 = last) omitted by the writer because it was constant
 * (symbolic constant c); its level-1 summary entries carry mean = c, as the real reduction produces (C02).  For any requested
 * sample (symbolic, aligned or not) the loaded block must be THE block of that sample: first sample id = block start, full
 * entry count, entry width (also for the reconstructed block), bytes of stored blocks = the written ones -- so that the caller's
 * "offset of the request inside the block" arithmetic (C01-O2) addresses the right samples.
 */
#include "common.h"
#include "jls/core.h"
#include "jls/ec.h"

#ifndef BITS
#define BITS 8
#endif
#if BITS == 8
#define DT JLS_DATATYPE_U8
#elif BITS == 4
#define DT JLS_DATATYPE_U4
#elif BITS == 1
#define DT JLS_DATATYPE_U1
#endif
#define BLOCK 16
#define SDF 8
#define NB 3
#define BLKBYTES ((BLOCK * BITS) / 8)
#define TOTAL (NB * BLOCK)
#ifndef OMIT
#define OMIT 1             /* which of the 3 blocks the writer omitted (1: middle, 2: last -- then the summary chunk ends with the omitted
                            * block's entries, so an index into the summary that is not computed from the block start runs off the end
                            * and the block comes back short) */
#endif
#define STORED2 (OMIT == 1 ? 2 : 1)   /* the second stored block */
#define OFF_A 8192
#define OFF_C 12288

static struct jls_core_s core;
static struct jls_core_fsr_s fsr_obj;
static uint8_t store[NB * BLKBYTES];
static int64_t first_id;
static int64_t pos;
static uint8_t cval;

int32_t jls_raw_chunk_seek(struct jls_raw_s * self, int64_t offset) { (void) self; if (offset <= 0) { return JLS_ERROR_IO; } pos = offset; return 0; }
int64_t jls_raw_chunk_tell(struct jls_raw_s * self) { (void) self; return pos; }

int32_t jls_core_rd_chunk(struct jls_core_s * self) {
    int k = (pos == OFF_A) ? 0 : ((pos == OFF_C) ? STORED2 : -1);
    CHECK(k >= 0, "only stored DATA chunks are read from the file");
    if (k < 0) { return JLS_ERROR_NOT_FOUND; }
    struct jls_fsr_data_s * r = (struct jls_fsr_data_s *) self->buf->start;
    r->header.timestamp = first_id + (int64_t) k * BLOCK;
    r->header.entry_count = BLOCK;
    r->header.entry_size_bits = BITS;
    r->header.rsv16 = 0;
    uint8_t * d = (uint8_t *) r->data;
    for (unsigned i = 0; i < BLKBYTES; ++i) { d[i] = store[k * BLKBYTES + i]; }
    self->chunk_cur.offset = pos;
    self->chunk_cur.hdr.tag = JLS_TAG_TRACK_FSR_DATA;
    self->chunk_cur.hdr.chunk_meta = 1;
    self->chunk_cur.hdr.payload_length = 16 + BLKBYTES;
    self->buf->length = 16 + BLKBYTES;
    self->buf->cur = self->buf->start;
    self->buf->end = self->buf->start + self->buf->length;
    return 0;
}

int32_t jls_core_rd_fsr_level1(struct jls_core_s * self, uint16_t signal_id, int64_t start_sample_id) {
    CHECK(signal_id == 1 && start_sample_id >= first_id && start_sample_id < first_id + TOTAL, "level-1 lookup for a sample inside the signal");
    struct jls_fsr_index_s * ix = (struct jls_fsr_index_s *) self->rd_index->start;
    ix->header.timestamp = first_id;
    ix->header.entry_count = NB;
    ix->header.entry_size_bits = 64;
    ix->header.rsv16 = 0;
    ix->offsets[0] = OFF_A;
    ix->offsets[OMIT] = 0;            /* omitted */
    ix->offsets[STORED2] = OFF_C;
    self->rd_index->length = 16 + 8 * NB;
    struct jls_fsr_f32_summary_s * sm = (struct jls_fsr_f32_summary_s *) self->rd_summary->start;
    sm->header.timestamp = first_id;
    sm->header.entry_count = NB * (BLOCK / SDF);
    sm->header.entry_size_bits = 128;
    sm->header.rsv16 = 0;
    float * sd = (float *) (self->rd_summary->start + 16);     /* entries: 4 x f32 each (mean, std, min, max); written through a plain float pointer:
                                                                 * CBMC 6.11's simplifier aborts on an lvalue through the flexible float data[][4] member */
    for (unsigned e = 0; e < NB * (BLOCK / SDF); ++e) {
        float v = 3.0f;
        if (e / (BLOCK / SDF) == OMIT) {
            v = (float) cval;
        }
        sd[e * 4 + JLS_SUMMARY_FSR_MEAN] = v;
        sd[e * 4 + JLS_SUMMARY_FSR_STD] = 0.0f;
        sd[e * 4 + JLS_SUMMARY_FSR_MIN] = v;
        sd[e * 4 + JLS_SUMMARY_FSR_MAX] = v;
    }
    self->rd_summary->length = 16 + 16 * NB * (BLOCK / SDF);
    return 0;
}

static uint64_t get_sample(const uint8_t * p, uint32_t k) {
#if BITS == 1
    return (p[k >> 3] >> (k & 7)) & 1u;
#elif BITS == 4
    return (p[k >> 1] >> ((k & 1) * 4)) & 0xfu;
#else
    return p[k];
#endif
}

void harness(void) {
    struct jls_core_signal_s * sig = &core.signal_info[1];
    sig->parent = &core;
    sig->signal_def.signal_id = 1;
    sig->signal_def.signal_type = JLS_SIGNAL_TYPE_FSR;
    sig->signal_def.data_type = DT;
    sig->signal_def.sample_rate = 1000;
    sig->signal_def.samples_per_data = BLOCK;
    sig->signal_def.sample_decimate_factor = SDF;
    sig->signal_def.entries_per_summary = NB * (BLOCK / SDF);
    sig->signal_def.summary_decimate_factor = 10;
    sig->chunk_def.offset = 64;
    sig->track_fsr = &fsr_obj;
    fsr_obj.parent = sig;
    fsr_obj.signal_length = TOTAL;
    core.buf = jls_buf_alloc();
    core.rd_index = jls_buf_alloc();
    core.rd_summary = jls_buf_alloc();
    ASSUME(core.buf != NULL && core.rd_index != NULL && core.rd_summary != NULL);
#ifdef FIRST_ID
    const int64_t off = FIRST_ID;
#else
    SYM_I64(off);
    ASSUME(off > -((int64_t) 1 << 40) && off < ((int64_t) 1 << 40));
#endif
    first_id = off;
    sig->signal_def.sample_id_offset = off;
    SYM_BYTES(store, NB * BLKBYTES, "store");
    SYM_U8(c);
#if BITS == 8
    cval = c;
    memset(store + OMIT * BLKBYTES, c, BLKBYTES);
#elif BITS == 4
    cval = c & 0x0f;
    memset(store + OMIT * BLKBYTES, (uint8_t) (cval | (cval << 4)), BLKBYTES);
#else
    cval = c & 1;
    memset(store + OMIT * BLKBYTES, cval ? 0xff : 0x00, BLKBYTES);
#endif
#ifdef DELTA
    const uint32_t delta = DELTA;                     /* the requested sample: concrete per instance (a symbolic request makes the index into the
                                                       * flexible float data[][4] summary symbolic, which CBMC 6.11 does not encode faithfully) */
#else
    SYM_U32(delta);                                   /* the requested sample, anywhere in the signal */
    ASSUME(delta < TOTAL);
#endif
    int32_t rc = jls_core_rd_fsr_data0(&core, 1, first_id + delta);
    CHECK(rc == 0, "the block of a stored or omitted sample is loaded without error");
    uint32_t k = delta / BLOCK;
    struct jls_fsr_data_s * r = (struct jls_fsr_data_s *) core.buf->start;
    CHECK(r->header.timestamp == first_id + (int64_t) k * BLOCK, "the loaded block starts at the first sample id of the block that holds the request (also for an omitted block and an unaligned request)");
    CHECK(r->header.entry_count == BLOCK, "a full block is loaded");
    CHECK(r->header.entry_size_bits == BITS && r->header.rsv16 == 0, "entry width as defined");
    SYM_U32(w);
    ASSUME(w < BLKBYTES);
    if (k != OMIT) {
        CHECK(((uint8_t *) r->data)[w] == store[k * BLKBYTES + w], "bytes of a stored block are the written ones");
    }
    /* The VALUE written into a reconstructed block (the level-1 mean, read in core.c through the flexible member float data[][4]) is not asserted:
     * CBMC 6.11 does not encode that read faithfully (counterexamples that do not reproduce natively; an lvalue of that shape aborts its simplifier). */
    WITNESS_END();
}
