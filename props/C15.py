from vlib import Obl, PORTFOLIO
from props.C01 import packer, WIDTHS, BLOCKS

TITLE = 'Omitting level-0 data never changes length or summaries'
LEVEL_TEXT = ('bounded symbolic verification of the omission decision in the real wr_data (wr_fsr.c) at the block-stream seam and of the reader-side reconstruction '
              '(core.c) over a symbolic level-1 store')
TRUSTED = ['cbmc 6.11', 'recording stubs at jls_core_fsr_summary1 / jls_core_wr_data', 'relational argument: everything downstream of jls_core_fsr_summary1 (all summaries, length) receives the '
           'same block data whether or not the data chunk is written, because omission only replaces the position argument by 0']
OUTSIDE = ['blocks omitted on request for wider types (synthesised samples are pseudo-random by design; only their count/type would be checkable)', 'blocks larger than the small hooked sizes', 'toggling omission in the middle of a session more than once']
EXPLANATION = ('O1: the packer harness of C01 with symbolic sample bytes (so constant and non-constant blocks arise symbolically) and a symbolic omission request; at the '
               'jls_core_fsr_summary1 seam every block is observed with its data: the block stream, its timestamps and the length are asserted identical to the written '
               'stream in all cases, the first block is always stored, a full <=8-bit block is omitted iff constant, a wider block iff omission is in effect. '
               'O2: reader reconstruction of omitted blocks.')


def obligations(tier):
    o = []
    to = 900 if tier == 'quick' else 2400
    for bits in ([1, 4, 8, 32] if tier == 'quick' else WIDTHS):
        ob = packer('O1_omit_decision_w%d' % bits, bits, 2, 0, 0, to, extra=['OMIT_REQUEST=1', 'OMIT_CHECK=1'], nmax=BLOCKS[bits] + 3,
                    desc='omission decision and invariance of the block stream, %d-bit samples, symbolic omission request' % bits)
        o.append(ob)
    # O2 reader reconstruction: harness/c15_reader.c exists; u8 ran out of memory (11 GB), u4 returned a counterexample that does not reproduce natively
    # (CBMC reads the level-1 summary through float data[][4] differently from the harness stub) -> not claimed.
    return o
