/* C16: signal definition normalisation (real jls_core_signal_def_validate / jls_core_signal_def_align in src/core.c).
 * BITS selects the data width instance.  Parameters are symbolic below 2^VB (value bound; the full 32-bit domain is
 * covered only by MODE_CRASH).  The search loop in align runs at most entries-per-block times; inputs are assumed to
 * give entries-per-block < EMAX and the unwinding assertion proves the loop bound.
 */
#include "common.h"
#include "jls/core.h"
#include "jls/ec.h"

#ifndef BITS
#define BITS 32
#endif
#ifndef VB
#define VB 11
#endif
#ifndef EMAX
#define EMAX 8
#endif

#if BITS == 1
#define DT JLS_DATATYPE_U1
#elif BITS == 4
#define DT JLS_DATATYPE_U4
#elif BITS == 8
#define DT JLS_DATATYPE_U8
#elif BITS == 16
#define DT JLS_DATATYPE_I16
#elif BITS == 24
#define DT JLS_DATATYPE_U24
#elif BITS == 32
#define DT JLS_DATATYPE_F32
#elif BITS == 64
#define DT JLS_DATATYPE_F64
#endif

static uint32_t umax(uint32_t a, uint32_t b) { return a > b ? a : b; }

#if BITS == 64 || BITS == 32 || BITS == 24
#define E_SPD_ 8192
#define E_SDF_ 128
#define E_EPS_ 640
#define E_SUM_ 20
#elif BITS == 16
#define E_SPD_ 16384
#define E_SDF_ 256
#define E_EPS_ 1280
#define E_SUM_ 20
#elif BITS == 8
#define E_SPD_ 32768
#define E_SDF_ 1024
#define E_EPS_ 640
#define E_SUM_ 20
#else
#define E_SPD_ 65536
#define E_SDF_ 1024
#define E_EPS_ 1280
#define E_SUM_ 20
#endif

void harness(void) {
    struct jls_signal_def_s def;
    memset(&def, 0, sizeof(def));
    def.signal_id = 1;
    def.source_id = 1;
    def.signal_type = JLS_SIGNAL_TYPE_FSR;
    def.data_type = DT;
    def.sample_rate = 1000;
    SYM_U32(spd);
    SYM_U32(sdf);
    SYM_U32(eps);
    SYM_U32(sumdf);
#if !defined(MODE_CRASH) && !defined(DEFAULTS_FIXED)
    const uint32_t lim = 1u << VB;
    ASSUME(spd < lim && sdf < lim && eps < lim && sumdf < lim);
#endif
#ifdef MODE_DEFAULTS
    /* any subset of the four fields is zero; the others stay symbolic */
    SYM_U8(zmask);
#ifdef DEFAULTS_FIXED
    /* the non-zero fields carry the documented default themselves: the result must be the (normalised) default tuple */
    spd = E_SPD_; sdf = E_SDF_; eps = E_EPS_; sumdf = E_SUM_;
#endif
    if (zmask & 1) spd = 0;
    if (zmask & 2) sdf = 0;
    if (zmask & 4) eps = 0;
    if (zmask & 8) sumdf = 0;
    ASSUME(zmask & 15);
#else
    ASSUME(spd != 0 && sdf != 0 && eps != 0 && sumdf != 0);
#endif
    /* keep entries-per-block below EMAX so that the reduce-until-fits loop is bounded */
#if defined(MODE_DEFAULTS)
    ASSUME((uint64_t) umax(spd ? spd : E_SPD_, 10) <= (uint64_t) (EMAX - 1) * umax(sdf ? sdf : E_SDF_, 10));
#else
    ASSUME((uint64_t) umax(spd, 10) <= (uint64_t) (EMAX - 1) * umax(sdf, 10));
#endif
    def.samples_per_data = spd;
    def.sample_decimate_factor = sdf;
    def.entries_per_summary = eps;
    def.summary_decimate_factor = sumdf;

#ifdef MODE_CRASH
    SYM_U32(adf);
    SYM_U32(udf);
    def.annotation_decimate_factor = adf;       /* full 32-bit domain incl. 0 (-> default) and 1 */
    def.utc_decimate_factor = udf;
#endif
    int32_t rc = jls_core_signal_def_validate(&def);
    CHECK(rc == 0, "a supported data type validates");
    rc = jls_core_signal_def_align(&def);
#ifdef MODE_CRASH
    /* full 32-bit domain: no division by zero, no out-of-range arithmetic (CBMC built-in checks), loop bounded,
     * and either an error code or parameters that satisfy the basic relations */
    if (rc == 0) {
        CHECK(def.sample_decimate_factor >= 10 && def.samples_per_data >= 10, "accepted definition has non-zero factors");
        /* the annotation/UTC index builder (wr_ts.c) holds decimate_factor entries per level and 15 levels: a factor of 1 overflows its one-entry buffers at close */
        CHECK(def.annotation_decimate_factor >= 2 && def.utc_decimate_factor >= 2, "accepted definition: annotation/UTC decimate factors are at least 2 (0 takes the default)");
        CHECK((adf < 2 || def.annotation_decimate_factor == adf) && (udf < 2 || def.utc_decimate_factor == udf), "usable annotation/UTC factors are stored as given");
        CHECK(def.samples_per_data % def.sample_decimate_factor == 0, "accepted definition: block holds whole entries");
    }
#else
    if (rc == 0) {
        const uint32_t n_sdf = def.sample_decimate_factor, n_spd = def.samples_per_data;
        const uint32_t n_eps = def.entries_per_summary, n_sum = def.summary_decimate_factor;
#if defined(MODE_REL_MIN)
        CHECK(n_sdf >= 10 && n_spd >= 10 && n_eps >= 10 && n_sum >= 10, "all factors respect their minimum (10)");
        CHECK(n_sdf >= sdf && n_eps >= eps && n_sum >= sumdf, "decimation factors are never reduced below the request");
#elif defined(MODE_REL_BYTES)
        CHECK(((uint64_t) n_sdf * BITS) % 8 == 0, "a level-1 summary entry covers a whole number of bytes");
#if (256 % BITS) == 0
        CHECK(((uint64_t) n_sdf * BITS) % 256 == 0, "a level-1 summary entry covers a multiple of 256 bits of samples");
#endif
        CHECK(((uint64_t) n_spd * BITS) % 8 == 0, "a block covers a whole number of bytes");
#elif defined(MODE_REL_BLOCK)
        CHECK(n_spd % n_sdf == 0, "a block holds a whole number of summary entries");
        CHECK(n_spd / n_sdf >= 1, "a block holds at least one summary entry");
#elif defined(MODE_REL_SUMMARY)
        CHECK(n_eps % (n_spd / n_sdf) == 0, "a summary chunk holds a whole number of blocks' entries");
        CHECK(n_eps % n_sum == 0, "a summary chunk holds a whole number of next-level groups");
#elif defined(MODE_IDEM)
        struct jls_signal_def_s d2 = def;
        int32_t rc2 = jls_core_signal_def_align(&d2);
        CHECK(rc2 == 0, "normalising normalised parameters succeeds");
        CHECK(d2.samples_per_data == n_spd && d2.sample_decimate_factor == n_sdf
              && d2.entries_per_summary == n_eps && d2.summary_decimate_factor == n_sum,
              "normalising already-normalised parameters changes nothing");
#elif defined(MODE_DEFAULTS)
        /* zero fields take the per-width default BEFORE normalisation: the result equals normalising the
         * definition with the documented default written in explicitly */
        struct jls_signal_def_s d2;
        memset(&d2, 0, sizeof(d2));
        d2.signal_id = 1; d2.source_id = 1; d2.signal_type = JLS_SIGNAL_TYPE_FSR; d2.data_type = DT; d2.sample_rate = 1000;
        const uint32_t D_SPD = E_SPD_, D_SDF = E_SDF_, D_EPS = E_EPS_, D_SUM = E_SUM_;   /* 24-bit: the 32-bit defaults */
        d2.samples_per_data = spd ? spd : D_SPD;
        d2.sample_decimate_factor = sdf ? sdf : D_SDF;
        d2.entries_per_summary = eps ? eps : D_EPS;
        d2.summary_decimate_factor = sumdf ? sumdf : D_SUM;
        int32_t rc2 = jls_core_signal_def_align(&d2);
        CHECK(rc2 == 0, "explicit defaults normalise");
        CHECK(d2.samples_per_data == n_spd && d2.sample_decimate_factor == n_sdf
              && d2.entries_per_summary == n_eps && d2.summary_decimate_factor == n_sum,
              "zero fields take the per-width defaults");
        CHECK(def.annotation_decimate_factor >= 2 && def.utc_decimate_factor >= 2, "annotation/UTC decimate factors get usable values");
#else
#error "no MODE"
#endif
    }
#endif
    WITNESS_END();
}
