/* C08-O1: bounded histories of the real message ring buffer from jls_mrb_init.
 * K symbolic operations (alloc with symbolic size / peek / pop) on a queue of symbolic
 * capacity; a shadow FIFO in the harness is the oracle.
 * Bounds: CAP_MIN <= capacity <= CAP_MAX, K operations.
 */
#include "common.h"
#include "jls/msg_ring_buffer.h"

#ifndef K
#define K 4
#endif
#ifndef CAP_MIN
#define CAP_MIN 16
#endif
#ifndef CAP_MAX
#define CAP_MAX 48
#endif
/* bytes the layout may keep unused: 4 (size header) + 4 (room for a wrap marker) + 1 (full/empty) + margin */
#define SLACK 12

struct shadow_s {
    uint32_t off;   /* payload offset in the buffer */
    uint32_t sz;
};

static uint32_t rd_sz(const uint8_t * p) {
    return ((uint32_t) p[0]) | (((uint32_t) p[1]) << 8) | (((uint32_t) p[2]) << 16) | (((uint32_t) p[3]) << 24);
}

void harness(void) {
    SYM_U32(cap);
    ASSUME(cap >= CAP_MIN && cap <= CAP_MAX);
    /* The object is exactly CAP_MAX bytes: for cap == CAP_MAX every access outside the queue memory is a
     * CBMC pointer failure (ASan in the replay build); for smaller capacities the bytes [cap, CAP_MAX) are a
     * guard zone that must keep its sentinel, and head/tail must leave room for the 4-byte header reads.
     * (A symbolic-size malloc was measured at 140 s / 4 GB instead of 4 s for the same query.) */
    uint8_t * buf = verif_malloc(CAP_MAX);
    memset(buf, 0xEE, CAP_MAX);
    struct jls_mrb_s m;
    jls_mrb_init(&m, buf, cap);
    SYM_U32(g);
    ASSUME(g < CAP_MAX);

    struct shadow_s sh[K];
    uint32_t sh_head = 0;   /* index of oldest */
    uint32_t sh_n = 0;      /* live count */
    uint32_t n_alloc = 0;   /* ordinal of next allocated message */

    /* one symbolic watched byte: message ordinal w_msg, byte index w_idx */
    SYM_U32(w_msg);
    SYM_U32(w_idx);
    ASSUME(w_msg < K && w_idx < CAP_MAX);
    uint8_t w_val = 0;
    bool w_set = false;
    uint32_t n_pop = 0;     /* ordinal of next popped message */

    for (unsigned step = 0; step < K; ++step) {
        SYM_U8(op);
        ASSUME(op < 3);
        if (op == 0) {
            SYM_U32(size);
            ASSUME(size <= CAP_MAX + 8);
#ifdef KF_C08_alloc_near_capacity
            /* listed known finding: sizes within 9 bytes of the capacity on an empty queue */
            ASSUME(!(sh_n == 0 && size + 10 > cap));
#endif
            uint32_t head0 = m.head, tail0 = m.tail, count0 = m.count;
            uint8_t * p = jls_mrb_alloc(&m, size);
            if (p) {
                CHECK(p >= buf + 4, "alloc: header of the returned region is inside the buffer");
                uint32_t o = (uint32_t) (p - buf);
                CHECK((uint64_t) o + size <= cap, "alloc: returned region ends inside the buffer");
                for (uint32_t i = 0; i < K; ++i) {
                    if (i < sh_n) {
                        struct shadow_s * e = &sh[(sh_head + i) % K];
                        /* [e->off-4, e->off+e->sz) must be disjoint from [o-4, o+size) */
                        bool disjoint = (e->off + e->sz <= o - 4) || (o + size <= e->off - 4);
                        CHECK(disjoint, "alloc: new region (with header) overlaps an unpopped message");
                    }
                }
                CHECK(rd_sz(p - 4) == size, "alloc: size header stored in front of the region");
                /* touch first and last byte of the region handed out */
                if (size > 0) {
                    p[0] = 0xA5;
                }
                if (size > 1) {
                    p[size - 1] = 0x5A;
                }
                if (n_alloc == w_msg && w_idx < size) {
                    SYM_U8(wv);
                    p[w_idx] = wv;
                    w_val = wv;
                    w_set = true;
                }
                sh[(sh_head + sh_n) % K].off = o;
                sh[(sh_head + sh_n) % K].sz = size;
                ++sh_n;
                ++n_alloc;
                CHECK(m.count == sh_n, "alloc: count equals number of live messages");
            } else {
                CHECK(m.head == head0 && m.tail == tail0 && m.count == count0, "failed alloc leaves head/tail/count unchanged");
                if (sh_n == 0) {
                    CHECK(!((uint64_t) size + SLACK <= cap), "alloc on an emptied queue fails although size <= usable capacity");
                } else {
                    /* completeness w.r.t. the layout, skipped while a consumed wrap marker is still pending at tail */
                    bool marker_pending = (m.tail != m.head) && (m.tail + 4 <= cap) && (rd_sz(buf + m.tail) & 0x80000000U);
                    if (!marker_pending) {
                        struct shadow_s * oldest = &sh[sh_head % K];
                        struct shadow_s * newest = &sh[(sh_head + sh_n - 1) % K];
                        uint32_t end_new = newest->off + newest->sz;
                        uint32_t start_old = oldest->off - 4;
                        if (newest->off >= oldest->off) {   /* not wrapped */
                            uint32_t free_a = cap - end_new;
                            uint32_t free_b = start_old;
                            CHECK(!(free_a >= size + SLACK || free_b >= size + SLACK), "alloc fails although a contiguous region fits (unwrapped)");
                        } else {
                            uint32_t free_w = start_old - end_new;
                            CHECK(!(free_w >= size + SLACK), "alloc fails although a contiguous region fits (wrapped)");
                        }
                    }
                }
            }
        } else {
            uint32_t sz = 0xdeadbeef;
            uint8_t * p = (op == 1) ? jls_mrb_peek(&m, &sz) : jls_mrb_pop(&m, &sz);
            if (sh_n == 0) {
                CHECK(p == NULL, "peek/pop on empty queue returns NULL");
                CHECK(sz == 0, "peek/pop on empty queue reports size 0");
            } else {
                struct shadow_s * e = &sh[sh_head % K];
                CHECK(p != NULL, "peek/pop: a live message is delivered");
                if (p) {
                    CHECK((uint32_t) (p - buf) == e->off, "peek/pop delivers the oldest message (FIFO order, same region)");
                    CHECK(sz == e->sz, "peek/pop delivers the size given at alloc");
                    if (w_set && n_pop == w_msg) {
                        CHECK(p[w_idx] == w_val, "message byte unchanged between alloc and delivery");
                    }
                    bool watched = (w_set && n_pop == w_msg);
                    if (e->sz > 0 && !(watched && w_idx == 0)) {
                        CHECK(p[0] == 0xA5, "first byte of the message intact at delivery");
                    }
                    if (e->sz > 1 && !(watched && w_idx == e->sz - 1)) {
                        CHECK(p[e->sz - 1] == 0x5A, "last byte of the message intact at delivery");
                    }
                }
                if (op == 2) {
                    sh_head = (sh_head + 1) % K;
                    --sh_n;
                    ++n_pop;
                    CHECK(m.count == sh_n, "pop: count equals number of live messages");
                }
            }
        }
        CHECK(m.head < cap && m.tail < cap, "head and tail stay inside the buffer");
        CHECK(m.head + 4 <= cap, "room for a 4-byte header/wrap marker at head inside the buffer");
        CHECK(m.tail == m.head || m.tail + 4 <= cap, "the 4-byte header read at tail is inside the buffer");
        CHECK(g < cap || buf[g] == 0xEE, "no write beyond the queue memory (guard zone intact)");
    }
    WITNESS_END();
    free(buf);
}
