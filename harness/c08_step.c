/* C08-O2: one inductive step of the real message ring buffer from an ARBITRARY layout-valid state.
 * The pre-state is generated from the layout invariant Inv_mrb:
 *   - live messages m_0..m_{M-1} (M <= MAXM, symbolic sizes) stored as [4-byte size][payload] consecutively from tail,
 *   - optionally one wrap marker (size word with bit 31 set) after n_before messages, the rest continuing at offset 0,
 *   - head = position after the newest message, head + 5 <= cap (room for a header/marker),
 *   - wrapped: head + 2 <= tail;  unwrapped: head >= tail, empty iff head == tail,
 *   - count == M.
 * One symbolic operation is executed; the O1 postconditions and Inv_mrb are asserted afterwards.
 * A counterexample from a pre-state that no history reaches would mean Inv_mrb is too weak, not a finding.
 */
#include "common.h"
#include "jls/msg_ring_buffer.h"

#ifndef MAXM
#define MAXM 3
#endif
#ifndef CAP_MIN
#define CAP_MIN 16
#endif
#ifndef CAP_MAX
#define CAP_MAX 64
#endif
#define SLACK 12
#define NSH (MAXM + 1)

struct shadow_s {
    uint32_t off;
    uint32_t sz;
};

static uint32_t rd_sz(const uint8_t * p) {
    return ((uint32_t) p[0]) | (((uint32_t) p[1]) << 8) | (((uint32_t) p[2]) << 16) | (((uint32_t) p[3]) << 24);
}
static void wr_sz(uint8_t * p, uint32_t sz) {
    p[0] = sz & 0xff; p[1] = (sz >> 8) & 0xff; p[2] = (sz >> 16) & 0xff; p[3] = (sz >> 24) & 0xff;
}

static uint8_t * buf;
static uint32_t cap;
static struct jls_mrb_s m;
static struct shadow_s sh[NSH];
static uint32_t sh_n;

static void inv_check(void) {
    CHECK(m.head < cap && m.tail < cap, "Inv: head and tail inside the buffer");
    CHECK(m.head + 5 <= cap, "Inv: room for a header/wrap marker at head");
    CHECK(m.count == sh_n, "Inv: count equals number of live messages");
    uint32_t pos = m.tail;
    bool wrapped = false;
    for (uint32_t i = 0; i < NSH; ++i) {
        if (i < sh_n) {
            CHECK(pos + 4 <= cap, "Inv: header at chain position inside the buffer");
            uint32_t sz = rd_sz(buf + pos);
            if (sz & 0x80000000U) {
                CHECK(!wrapped, "Inv: at most one wrap marker in the chain");
                wrapped = true;
                pos = 0;
                sz = rd_sz(buf);
            }
            CHECK(pos + 4 == sh[i].off, "Inv: chain position matches the live message (FIFO order)");
            CHECK(sz == sh[i].sz, "Inv: stored size matches the live message");
            pos += 4 + sz;
            CHECK(pos <= cap, "Inv: message ends inside the buffer");
        }
    }
    if (sh_n == 0) {
        CHECK(m.head == m.tail, "Inv: empty queue has head == tail");
    } else {
        CHECK(pos == m.head, "Inv: chain from tail ends at head");
        CHECK(m.head != m.tail, "Inv: non-empty queue has head != tail");
    }
    if (wrapped) {
        CHECK(m.head + 2 <= m.tail, "Inv: wrapped head stays below tail");
    }
}

void harness(void) {
    SYM_T(uint32_t, capv);
    cap = capv;
    ASSUME(cap >= CAP_MIN && cap <= CAP_MAX);
    buf = verif_malloc(CAP_MAX);
    memset(buf, 0xEE, CAP_MAX);
    SYM_U32(g);
    ASSUME(g < CAP_MAX);

    /* ---- generate an arbitrary Inv_mrb state ---- */
    SYM_U32(M);
    SYM_U32(T);
    SYM_U8(wrap);
    SYM_U32(n_before);
    ASSUME(M <= MAXM && T < cap && wrap <= 1 && n_before <= M);
    ASSUME(!wrap || n_before < M);     /* a wrap marker is only ever written in front of a message */
    ASSUME(T + 5 <= cap);
    uint32_t pos = T;
    bool over = false;
    for (uint32_t i = 0; i < MAXM; ++i) {
        if (i < M) {
            if (wrap && i == n_before) {
                if (pos + 5 > cap) { over = true; }
                else { wr_sz(buf + pos, 0xffffffffU); }
                pos = 0;
            }
            SYM_U32(s);
            ASSUME(s <= CAP_MAX);
            if (pos + 4 + s > cap) { over = true; }
            else {
                wr_sz(buf + pos, s);
                sh[i].off = pos + 4;
                sh[i].sz = s;
                if (s > 0) { buf[pos + 4] = 0xA5; }
                if (s > 1) { buf[pos + 4 + s - 1] = 0x5A; }
                pos += 4 + s;
            }
        }
    }
    ASSUME(!over);
    ASSUME(pos + 5 <= cap);
    if (wrap) {
        ASSUME(pos + 2 <= T);
    }
    m.buf = buf;
    m.buf_size = cap;
    m.head = pos;
    m.tail = T;
    m.count = M;
    sh_n = M;
    if (M == 0) {
        ASSUME(!wrap);
    }
    /* watched byte in a symbolic live message */
    SYM_U32(w_msg);
    SYM_U32(w_idx);
    SYM_U8(w_val);
    ASSUME(w_msg < MAXM && w_idx < CAP_MAX);
    bool w_set = false;
    if (w_msg < M && w_idx < sh[w_msg].sz) {
        buf[sh[w_msg].off + w_idx] = w_val;
        w_set = true;
    }

    /* ---- one operation ---- */
    SYM_U8(op);
    ASSUME(op < 3);
    if (op == 0) {
        SYM_U32(size);
        ASSUME(size <= CAP_MAX + 8);
        uint32_t head0 = m.head, tail0 = m.tail, count0 = m.count;
        uint8_t * p = jls_mrb_alloc(&m, size);
        if (p) {
            CHECK(p >= buf + 4, "alloc: header of the returned region is inside the buffer");
            uint32_t o = (uint32_t) (p - buf);
            CHECK((uint64_t) o + size <= cap, "alloc: returned region ends inside the buffer");
            for (uint32_t i = 0; i < MAXM; ++i) {
                if (i < sh_n) {
                    bool disjoint = (sh[i].off + sh[i].sz <= o - 4) || (o + size <= sh[i].off - 4);
                    CHECK(disjoint, "alloc: new region (with header) overlaps an unpopped message");
                }
            }
            if (size > 0) { p[0] = 0xA5; }
            if (size > 1) { p[size - 1] = 0x5A; }
            sh[sh_n].off = o;
            sh[sh_n].sz = size;
            ++sh_n;
        } else {
            CHECK(m.head == head0 && m.tail == tail0 && m.count == count0, "failed alloc leaves head/tail/count unchanged");
            if (sh_n == 0) {
                CHECK(!((uint64_t) size + SLACK <= cap), "alloc on an emptied queue fails although size <= usable capacity");
            } else {
                bool marker_pending = (rd_sz(buf + m.tail) & 0x80000000U) != 0;
                if (!marker_pending) {
                    uint32_t end_new = sh[sh_n - 1].off + sh[sh_n - 1].sz;
                    uint32_t start_old = sh[0].off - 4;
                    if (sh[sh_n - 1].off >= sh[0].off) {
                        CHECK(!((cap - end_new) >= size + SLACK || start_old >= size + SLACK), "alloc fails although a contiguous region fits (unwrapped)");
                    } else {
                        CHECK(!((start_old - end_new) >= size + SLACK), "alloc fails although a contiguous region fits (wrapped)");
                    }
                }
            }
        }
        if (w_set) {
            CHECK(buf[sh[w_msg].off + w_idx] == w_val, "alloc does not modify bytes of unpopped messages");
        }
    } else {
        uint32_t sz = 0xdeadbeef;
        uint8_t * p = (op == 1) ? jls_mrb_peek(&m, &sz) : jls_mrb_pop(&m, &sz);
        if (sh_n == 0) {
            CHECK(p == NULL && sz == 0, "peek/pop on empty queue returns NULL, size 0");
        } else {
            CHECK(p != NULL, "peek/pop: a live message is delivered");
            if (p) {
                CHECK((uint32_t) (p - buf) == sh[0].off, "peek/pop delivers the oldest message");
                CHECK(sz == sh[0].sz, "peek/pop delivers the size given at alloc");
                if (w_set && w_msg == 0) {
                    CHECK(p[w_idx] == w_val, "message byte unchanged at delivery");
                }
            }
            if (op == 2) {
                for (uint32_t i = 0; i + 1 < NSH; ++i) { sh[i] = sh[i + 1]; }
                --sh_n;
            }
        }
    }
    inv_check();
    CHECK(g < cap || buf[g] == 0xEE, "no write beyond the queue memory (guard zone intact)");
    WITNESS_END();
}
