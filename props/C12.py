import os
from vlib import Obl, PORTFOLIO
from props.ts_common import ts_obl

TITLE = 'UTC entries round-trip; id/time conversion is anchored, monotone, invertible'
LEVEL_TEXT = ('bounded symbolic verification of the real time map (tmap.c) with a 2-entry allocation hook: pairs kept across growth, stored pairs reproduced exactly, '
              'no access outside the arrays when the map is exactly full; UTC index construction and seek at internal seams')
TRUSTED = ['cbmc 6.11 (IEEE-754 bit-blasting for the one division/multiplication/round of interp_i64)', 'hook JLS_VERIF_TMAP_ALLOC_INIT', 'harness/c12_tmap.c']
OUTSIDE = ['"within one time tick of the exact value" and "inverse within one sample" for deltas >= 2^VBITS of the tick-accuracy rung, for extrapolation and for the single-pair sample-rate path',
           'more than NMAX pairs', 'extrapolation outside the stored range']
EXPLANATION = ('O2: N<=NMAX pairs (symbolic strictly increasing ids, non-decreasing times, deltas < 2^VBITS) are added through the real jls_tmap_add (allocation 2 -> 4 -> 8); '
               'a symbolic stored pair is converted id->time (exact), time->id (exact when the time is unique) and an id inside a segment maps into the segment. '
               'The arrays are exactly sized heap objects, so the binary search reading x[entries_length] is a pointer failure.')


def obligations(tier):
    o = []
    o.append(ts_obl('O1_utc_index_construction_D2_N5', True, 2, 5, timeout=900 if tier == 'quick' else 2400))
    nm = 4 if tier == 'quick' else 6
    base = ['JLS_VERIF_TMAP_ALLOC_INIT=2']
    o.append(Obl('O2_tmap_pairs_exact', 'c12_tmap.c', units=['tmap.c'], defines=base, unwind=nm + 4, timeout=900, backend=PORTFOLIO, mem_gb=24,
                 ladder=([('N3_V8', ['NMAX=3', 'VBITS=8'], None, None), ('N2_V6', ['NMAX=2', 'VBITS=6'], None, None)] if tier == 'quick' else
                         [('N4_V10', ['NMAX=4', 'VBITS=10'], None, None), ('N3_V8', ['NMAX=3', 'VBITS=8'], None, None)]),
                 desc='stored pairs reproduced exactly by sample id -> time; growth 2->4(->8); no out-of-bounds access when exactly full',
                 bound='N pairs and id/time deltas < 2^VBITS per rung label, |id0|<2^40, |t0|<2^61'))
    o.append(Obl('O2_tmap_inverse_between', 'c12_tmap.c', units=['tmap.c'], defines=base + ['WITH_INVERSE=1', 'WITH_BETWEEN=1'], unwind=8, timeout=900,
                 backend=PORTFOLIO,
                 ladder=([('N2_V8', ['NMAX=2', 'VBITS=8'], None, None)] if tier == 'quick' else [('N3_V10', ['NMAX=3', 'VBITS=10'], None, None), ('N2_V8', ['NMAX=2', 'VBITS=8'], None, None)]),
                 desc='time -> id exact on stored pairs with a unique time; ids inside a segment map into the segment',
                 bound='N<=3 pairs, deltas < 2^12'))
    o.append(Obl('O2_tmap_extrapolate_memsafe', 'c12_tmap.c', units=['tmap.c'], defines=base + ['NMAX=2', 'VBITS=8', 'WITH_EXTRAP=1'], unwind=6, timeout=600,
                 backend=PORTFOLIO, flags=['--slice-formula'],
                 desc='conversions before the first and after the last pair: no access outside the exactly sized arrays (map exactly full at N=2)',
                 bound='N<=2 pairs (map exactly full with the 2-entry hook), deltas < 2^8'))
    o.append(Obl('O2_tmap_tick_accuracy', 'c12_tmap.c', units=['tmap.c'], defines=base + ['WITH_TICK=1'], unwind=6, timeout=900, backend=PORTFOLIO,
                 ladder=([('N2_V6', ['NMAX=2', 'VBITS=6'], None, None)] if tier == 'quick' else [('N2_V8', ['NMAX=2', 'VBITS=8'], None, None), ('N2_V6', ['NMAX=2', 'VBITS=6'], None, None)]),
                 desc='inside a segment, id -> time is within one tick and time -> id within one sample of the exact linear value (integer oracle), '
                      'for anchors of any magnitude up to 2^62 (where a double no longer holds the anchor exactly)',
                 bound='2 pairs, id/time deltas < 2^VBITS per rung label, |id0|,|t0| < 2^62'))
    if os.environ.get('C12_EXTRAP'):      # parked: no verdict within 15 min at VBITS=6 (DESIGN.md C12 'not decided'); not part of any registered tier
        o.append(Obl('O2_tmap_tick_accuracy_extrapolated', 'c12_tmap.c', units=['tmap.c'], defines=base + ['WITH_TICK=1', 'TICK_EXTRAP=1', 'NMAX=2', 'VBITS=6'], unwind=6, timeout=1500, backend=PORTFOLIO,
                     desc='as O2_tmap_tick_accuracy, with the sample id up to 2^6 before the first / after the last of the two pairs: extrapolation from the nearest (only) segment is within one tick of the exact linear value',
                     bound='2 pairs, id/time deltas < 2^6, extrapolation distance <= 2^6, |id0|,|t0| < 2^62'))
    for n, df in ([(27, 3)] if tier == 'quick' else [(5, 2), (7, 2), (8, 2), (10, 3), (27, 3)]):
        o.append(Obl('O1_utc_seek_D%d_N%d' % (df, n), 'c11_seek.c', units=['core.c', 'buffer.c'], seams={'core.c': ['jls_core_rd_chunk']},
                     defines=['JLS_VERIF_SIGNAL_COUNT=2', 'JLS_VERIF_SOURCE_COUNT=2', 'JLS_VERIF_FSR_BUFFER_U64=2', 'JLS_VERIF_BUF_DEFAULT_SIZE=128', 'JLS_VERIF_BUF_STRING_SIZE=16',
                              'N_FIXED=%d' % n, 'DF=%d' % df, 'SEEK_LEVEL1=1', 'STRICT_INCREASING=1'],
                     unwind=18, unwind_text=[('harness', r'i < N_FIXED', n + 2), ('jls_core_rd_chunk', r'c < MAXC', 12), ('jls_core_ts_seek', r'for \\(; ; \\+\\+idx\\)', df + 2)],
                     typed_calloc=True, timeout=900 if tier == 'quick' else 2400, backend=PORTFOLIO, objbits=10,
                     desc='jls_core_ts_seek(level 1) as used by jls_core_utc over an index tree of %d entries (decimate %d, symbolic increasing sample ids), symbolic start id: '
                          'every pair at or after the start id lies in the level-1 chunk found or a later one' % (n, df),
                     bound='%d entries, decimate factor %d' % (n, df),
                     assumes=['the index tree has the structure the builder produces (O1_utc_index_construction)']))
    # thorough only: symex of this obligation takes ~7 min whatever N is (128k steps through untyped read buffers); C12 quick is already at its time limit
    for n, df in ([] if tier == 'quick' else [(4, 2), (7, 2)]):
        o.append(Obl('O1_utc_iterate_D%d_N%d' % (df, n), 'c11_seek.c', units=['core.c', 'reader.c', 'buffer.c'], seams={'core.c': ['jls_core_rd_chunk']},
                     defines=['JLS_VERIF_SIGNAL_COUNT=2', 'JLS_VERIF_SOURCE_COUNT=2', 'JLS_VERIF_FSR_BUFFER_U64=2', 'JLS_VERIF_BUF_DEFAULT_SIZE=128', 'JLS_VERIF_BUF_STRING_SIZE=16',
                              'N_FIXED=%d' % n, 'DF=%d' % df, 'MODE_UTC_ITERATE=1', 'STRICT_INCREASING=1'],
                     unwind=18, unwind_text=[('harness', r'i < N_FIXED', n + 2), ('jls_core_rd_chunk', r'c < MAXC', 12), ('jls_raw_rd_header', r'c < MAXC', 12), ('jls_raw_chunk_next', r'c < MAXC', 12),
                                             ('jls_core_utc', r'while \(hdr.item_next\)', n + 2), ('jls_core_utc', r'idx < utc->header.entry_count\) &&', df + 2),
                                             ('jls_core_utc', r'entry_idx < utc->header.entry_count', df + 2), ('utc_cbk', r'j < DF', df + 2), ('jls_core_ts_seek', r'for \(; ; \+\+idx\)', df + 2)],
                     typed_calloc=True, timeout=900 if tier == 'quick' else 2400, backend=PORTFOLIO, objbits=10,
                     desc='jls_core_utc (reader.c) = level-1 seek + batch iteration over %d UTC entries (decimate %d): symbolic increasing sample ids, first sample id, requested id and stop count: '
                          'exactly the entries at or after the requested id, in write order, each once, ids relative to the first sample id, stop honoured' % (n, df),
                     bound='%d entries, decimate factor %d, all entries committed to level-1 summaries (closed file)' % (n, df),
                     assumes=['index tree and level-1 summaries as the writer builds them (O1_utc_index_construction), served at the jls_core_rd_chunk / jls_raw_rd_header / jls_raw_chunk_next seams']))
    return o
