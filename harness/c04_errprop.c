/* C04-O2: a chunk that fails verification is never consumed.  Real reader-side functions (core.c, reader.c) run over a
 * feeder at the raw-layer seam: every jls_raw_rd / jls_raw_rd_header succeeds with a structurally plausible chunk whose
 * payload bytes are symbolic, except the read with the symbolic ordinal fault_at, which fails with
 * JLS_ERROR_MESSAGE_INTEGRITY - what raw.c returns when a header or payload checksum does not match (decided in C04-O1).
 * Property per entry point: if the failing read happened during the call, the call returns an error and no callback is
 * invoked for it afterwards.
 */
#include "common.h"
#include "jls/core.h"
#include "jls/reader.h"
#include "jls/raw.h"
#include "jls/ec.h"

struct jls_raw_s { int dummy; };
static struct jls_raw_s the_raw;
static struct jls_core_s core;
static struct jls_core_fsr_s fsr_obj;
static uint32_t n_reads, fault_at;
static bool fault_hit;
static uint32_t cbk_after_fault, cbk_calls;
static int64_t pos = 4096;
static uint8_t want_tag;          /* tag the feeder presents */
static uint16_t want_meta;
static uint32_t feed_len;         /* payload length */
static uint16_t feed_entry_bits;
static uint32_t feed_entries;
static uint32_t chain_left;       /* how many more chunks a list has (item_next != 0) */
static uint8_t seq_tag[4];        /* optional per-read script: tag / entry size of the k-th read (0 = use want_tag) */
static uint16_t seq_bits[4];
static uint32_t seq_entries[4];

int64_t jls_raw_chunk_tell(struct jls_raw_s * self) { (void) self; return pos; }
int32_t jls_raw_chunk_seek(struct jls_raw_s * self, int64_t offset) { (void) self; if (offset <= 0) { return JLS_ERROR_IO; } pos = offset; return 0; }
int32_t jls_raw_chunk_next(struct jls_raw_s * self) { (void) self; pos += 256; return 0; }
const char * jls_tag_to_name(uint8_t tag) { (void) tag; return "t"; }

static int32_t feed(struct jls_chunk_header_s * hdr, uint8_t * payload, uint32_t max) {
    if (hdr) { hdr->tag = JLS_TAG_INVALID; }
    if (n_reads++ == fault_at) {
        fault_hit = true;
        return JLS_ERROR_MESSAGE_INTEGRITY;
    }
    if (hdr) {
        hdr->item_next = chain_left ? (uint64_t) (pos + 512) : 0;
        if (chain_left) { --chain_left; }
        hdr->item_prev = 0;
        hdr->tag = (n_reads - 1 < 4 && seq_tag[n_reads - 1]) ? seq_tag[n_reads - 1] : want_tag;
        hdr->rsv0_u8 = 0;
#if ENTRY == 9
        hdr->chunk_meta = (uint16_t) ((1 << 12) | ((pos >= 16384) ? 2 : 1));
#else
        hdr->chunk_meta = want_meta;
#endif
        hdr->payload_length = feed_len;
        hdr->payload_prev_length = 0;
        hdr->crc32 = 0;
    }
    if (payload) {
        if (feed_len + 8 > max) { return JLS_ERROR_TOO_BIG; }
        SYM_BYTES(payload, 64, "payload");
        struct jls_payload_header_s ph;
        memcpy(&ph, payload, 16);
        ph.entry_count = (n_reads - 1 < 4 && seq_tag[n_reads - 1]) ? seq_entries[n_reads - 1] : feed_entries;
        ph.entry_size_bits = (n_reads - 1 < 4 && seq_tag[n_reads - 1]) ? seq_bits[n_reads - 1] : feed_entry_bits;
        ph.rsv16 = 0;
        ph.timestamp = 1000;
        memcpy(payload, &ph, 16);
        if (hdr && hdr->tag == JLS_TAG_TRACK_FSR_INDEX) {
            uint64_t e0 = 12288 + ((pos >= 16384) ? 16384 : 0), e1 = e0 + 256;      /* stored (not omitted) blocks; distinct per signal */
            memcpy(payload + 16, &e0, 8);
            memcpy(payload + 24, &e1, 8);
        }
        pos += 256;
    }
    return 0;
}
int32_t jls_raw_rd(struct jls_raw_s * self, struct jls_chunk_header_s * hdr, uint32_t payload_length_max, uint8_t * payload) {
    (void) self; return feed(hdr, payload, payload_length_max);
}
int32_t jls_raw_rd_header(struct jls_raw_s * self, struct jls_chunk_header_s * hdr) { (void) self; return feed(hdr, NULL, 0); }

static int32_t anno_cbk(void * u, const struct jls_annotation_s * a) { (void) u; (void) a; ++cbk_calls; if (fault_hit) { ++cbk_after_fault; } return 0; }
static int32_t utc_cbk(void * u, const struct jls_utc_summary_entry_s * e, uint32_t n) { (void) u; (void) e; (void) n; ++cbk_calls; if (fault_hit) { ++cbk_after_fault; } return 0; }
static int32_t ud_cbk(void * u, uint16_t m, enum jls_storage_type_e t, uint8_t * d, uint32_t n) { (void) u; (void) m; (void) t; (void) d; (void) n; ++cbk_calls; if (fault_hit) { ++cbk_after_fault; } return 0; }

void harness(void) {
    core.raw = &the_raw;
    core.buf = jls_buf_alloc();
    core.rd_index = jls_buf_alloc();
    core.rd_summary = jls_buf_alloc();
    ASSUME(core.buf != NULL && core.rd_index != NULL && core.rd_summary != NULL);
    struct jls_core_signal_s * s = &core.signal_info[1];
    s->parent = &core;
    s->signal_def.signal_id = 1;
    s->signal_def.signal_type = JLS_SIGNAL_TYPE_FSR;
    s->signal_def.data_type = JLS_DATATYPE_U8;
    s->signal_def.sample_rate = 1000;
    s->signal_def.samples_per_data = 16;
    s->signal_def.sample_decimate_factor = 8;
    s->signal_def.entries_per_summary = 4;
    s->signal_def.summary_decimate_factor = 2;
    s->signal_def.sample_id_offset = 1000;
    s->chunk_def.offset = 64;
    s->track_fsr = &fsr_obj;
    fsr_obj.parent = s;
    fsr_obj.signal_length = 32;
    for (unsigned t = 0; t < 4; ++t) { s->tracks[t].parent = s; s->tracks[t].track_type = (uint8_t) t; }
    SYM_U32(fa);
    ASSUME(fa < 6);
    fault_at = fa;
    feed_len = 48;
    feed_entries = 2;
    int32_t rc = 0;
#if   ENTRY == 1     /* level-1 index + summary load */
    s->tracks[JLS_TRACK_TYPE_FSR].head_offsets[1] = 8192;
    want_tag = JLS_TAG_TRACK_FSR_INDEX; want_meta = (1 << 12) | 1; feed_entry_bits = 64;
    rc = jls_core_rd_fsr_level1(&core, 1, 1000);
#elif ENTRY == 2     /* first sample id scan at open */
    s->tracks[JLS_TRACK_TYPE_FSR].head_offsets[0] = 8192;
    want_tag = JLS_TAG_TRACK_FSR_DATA; want_meta = 1; feed_entry_bits = 8; feed_entries = 16;
    rc = jls_core_scan_fsr_sample_id(&core);
#elif ENTRY == 3     /* data block load (index, summary, data) */
    s->tracks[JLS_TRACK_TYPE_FSR].head_offsets[1] = 8192;
    want_tag = JLS_TAG_TRACK_FSR_INDEX; want_meta = (1 << 12) | 1; feed_entry_bits = 64;
    seq_tag[0] = JLS_TAG_TRACK_FSR_INDEX; seq_bits[0] = 64; seq_entries[0] = 2;
    seq_tag[1] = JLS_TAG_TRACK_FSR_SUMMARY; seq_bits[1] = 128; seq_entries[1] = 2;
    seq_tag[2] = JLS_TAG_TRACK_FSR_DATA; seq_bits[2] = 8; seq_entries[2] = 16;
    rc = jls_core_rd_fsr_data0(&core, 1, 1000);
#elif ENTRY == 4     /* length from the index levels */
    fsr_obj.signal_length = -1;
    s->tracks[JLS_TRACK_TYPE_FSR].head_offsets[1] = 8192;
    want_tag = JLS_TAG_TRACK_FSR_INDEX; want_meta = (1 << 12) | 1; feed_entry_bits = 64;
    seq_tag[0] = JLS_TAG_TRACK_FSR_INDEX; seq_bits[0] = 64; seq_entries[0] = 2;
    seq_tag[1] = JLS_TAG_TRACK_FSR_SUMMARY; seq_bits[1] = 128; seq_entries[1] = 2;
    seq_tag[2] = JLS_TAG_TRACK_FSR_DATA; seq_bits[2] = 8; seq_entries[2] = 16;
    { int64_t len = 0; rc = jls_core_fsr_length(&core, 1, &len); }
#elif ENTRY == 5     /* annotations */
    s->tracks[JLS_TRACK_TYPE_ANNOTATION].head_offsets[0] = 8192;
    want_tag = JLS_TAG_TRACK_ANNOTATION_DATA; want_meta = 1; chain_left = 2; feed_entry_bits = 0; feed_entries = 1;
    rc = jls_core_annotations(&core, 1, 0, anno_cbk, NULL);
#elif ENTRY == 6     /* UTC */
    s->tracks[JLS_TRACK_TYPE_UTC].head_offsets[0] = 8192;
    want_tag = JLS_TAG_TRACK_UTC_DATA; want_meta = 1; chain_left = 2; feed_entry_bits = 64; feed_entries = 1; feed_len = 24;
    rc = jls_core_utc(&core, 1, 0, utc_cbk, NULL);
#elif ENTRY == 7     /* user data */
    core.user_data_head.offset = 4096; core.user_data_head.hdr.item_next = 8192;
    want_tag = JLS_TAG_USER_DATA; want_meta = (JLS_STORAGE_TYPE_BINARY << 12) | 5; chain_left = 2;
    rc = jls_core_user_data(&core, ud_cbk, NULL);
#elif ENTRY == 8     /* source list scan */
    core.source_head.offset = 8192;
    want_tag = JLS_TAG_SOURCE_DEF; want_meta = 0; chain_left = 1; feed_len = 40;
    rc = jls_core_scan_sources(&core);
    if (rc == JLS_ERROR_EMPTY) { rc = fault_hit ? rc : 0; }     /* a malformed (too short) definition payload is not the subject here */
#elif ENTRY == 9     /* C01-O3: the level-1 cache is keyed by signal */
    {
        struct jls_core_signal_s * s2 = &core.signal_info[2];
        *s2 = *s;
        s2->signal_def.signal_id = 2;
        static struct jls_core_fsr_s fsr2;
        fsr2 = fsr_obj; fsr2.parent = s2;
        s2->track_fsr = &fsr2;
        for (unsigned t = 0; t < 4; ++t) { s2->tracks[t].parent = s2; }
        s->tracks[JLS_TRACK_TYPE_FSR].head_offsets[1] = 8192;
        s2->tracks[JLS_TRACK_TYPE_FSR].head_offsets[1] = 16384;
        want_tag = JLS_TAG_TRACK_FSR_INDEX; feed_entry_bits = 64;
        seq_tag[0] = JLS_TAG_TRACK_FSR_INDEX; seq_bits[0] = 64; seq_entries[0] = 2;
        seq_tag[1] = JLS_TAG_TRACK_FSR_SUMMARY; seq_bits[1] = 128; seq_entries[1] = 2;
        seq_tag[2] = JLS_TAG_TRACK_FSR_INDEX; seq_bits[2] = 64; seq_entries[2] = 2;
        seq_tag[3] = JLS_TAG_TRACK_FSR_SUMMARY; seq_bits[3] = 128; seq_entries[3] = 2;
        fault_at = 0xffffffffu;
        SYM_U32(smp1);
        SYM_U32(smp2);
        ASSUME(smp1 < 32 && smp2 < 32);        /* both inside the range covered by the cached index chunk */
        rc = jls_core_rd_fsr_level1(&core, 1, 1000 + smp1);
        CHECK(rc == 0 && n_reads == 2 && core.rd_index_chunk.hdr.chunk_meta == ((1 << 12) | 1), "first read loads signal 1's level-1 index");
        rc = jls_core_rd_fsr_level1(&core, 2, 1000 + smp2);
        CHECK(rc == 0, "read on the other signal succeeds");
        CHECK(core.rd_index_chunk.hdr.chunk_meta == ((1 << 12) | 2), "after a read on signal 2 the cached level-1 index belongs to signal 2");
        struct jls_fsr_index_s * ix = (struct jls_fsr_index_s *) core.rd_index->start;
        CHECK(ix->offsets[0] == 12288 + 16384, "the cached index entries are those of signal 2 (a read returns signal 2's blocks)");
        rc = jls_core_rd_fsr_level1(&core, 2, 1000 + smp1);
        CHECK(rc == 0 && n_reads == 4, "a second read on the same signal inside the cached range reuses the cache");
    }
#else
#error "ENTRY"
#endif
    if (!fault_hit) {
        CHECK(rc == 0, "without a failing read the call succeeds (the feeder is plausible: the obligation is not vacuous)");
    }
    if (fault_hit) {
        CHECK(rc != 0, "a chunk that failed verification during the call makes the call fail");
        CHECK(cbk_after_fault == 0, "no callback is invoked after the failed read");
    }
    WITNESS_END();
}
