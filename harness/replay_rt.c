/* Replay runtime: feeds the values of a CBMC counterexample back into the harness. */
#include <stdio.h>
#include <stdlib.h>
#include <string.h>
#include <stdint.h>

static FILE * f_;
static long line_;

uint64_t replay_next(const char * name) {
    char nm[256];
    unsigned long long v = 0;
    if (!f_) {
        const char * p = getenv("VERIF_REPLAY_FILE");
        if (!p) { fprintf(stderr, "REPLAY: VERIF_REPLAY_FILE not set\n"); exit(4); }
        f_ = fopen(p, "r");
        if (!f_) { fprintf(stderr, "REPLAY: cannot open %s\n", p); exit(4); }
    }
    for (;;) {
        char buf[512];
        if (!fgets(buf, sizeof(buf), f_)) {
            /* inputs past the end of the trace were irrelevant to the counterexample */
            return 0;
        }
        ++line_;
        if (buf[0] == '#' || buf[0] == '\n') continue;
        if (sscanf(buf, "%255s %llu", nm, &v) != 2) { fprintf(stderr, "REPLAY: bad line %ld\n", line_); exit(4); }
        break;
    }
    if (strcmp(nm, name) != 0) {
        fprintf(stderr, "REPLAY: input order mismatch at line %ld: file has %s, harness asks %s\n", line_, nm, name);
        exit(4);
    }
    return (uint64_t) v;
}

void replay_done(void) {
    fprintf(stderr, "REPLAY: harness completed without violation\n");
}

extern void harness(void);
int main(void) {
    harness();
    return 0;
}
