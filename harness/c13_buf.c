/* C13-O1 / C10-O4: payload buffer codec (real src/buffer.c) with small size hooks so that growth and string-block
 * chaining happen within the bound.
 * MODE_STR   : two strings (symbolic bytes, length <= SLEN, or NULL) written with jls_buf_wr_str and read back with
 *              jls_buf_rd_str: identical bytes, NULL reads back as "", write crosses the growth boundary of the buffer,
 *              read crosses the string-block boundary.
 * MODE_INTS  : integer/float/binary/zero writers followed by the readers: values identical, cursor bookkeeping consistent.
 * MODE_GROW  : jls_buf_realloc for a symbolic size: terminates, start/cur/end stay consistent, content preserved.
 * MODE_RDCHUNK (C13-O4): jls_core_rd_chunk (core.c + raw.c over membk) on a chunk whose payload length is symbolic around the
 *              read-buffer size: terminates and delivers the payload unaltered.
 */
#include "common.h"
#include "jls/buffer.h"
#include "jls/ec.h"
#ifdef MODE_RDCHUNK
#include "membk.h"
#include "jls/core.h"
#include "jls/raw.h"
#endif

#ifndef SLEN
#define SLEN 6
#endif

static void inv(struct jls_buf_s * b) {
    CHECK(b->start != NULL, "buffer allocated");
    CHECK(b->cur >= b->start && b->cur <= b->start + b->alloc_size, "cur inside the allocation");
    CHECK(b->end >= b->start && b->end <= b->start + b->alloc_size, "end inside the allocation");
    CHECK(b->length <= b->alloc_size, "length within the allocation");
}

void harness(void) {
#if defined(MODE_STR)
    struct jls_buf_s * b = jls_buf_alloc();
    ASSUME(b != NULL);
    char s[2][SLEN + 1];
    uint32_t len[2];
    bool isnull[2];
    for (unsigned k = 0; k < 2; ++k) {
        SYM_U32(l);
        SYM_U8(nul);
        ASSUME(l <= SLEN);
        len[k] = l;
        isnull[k] = (nul & 1) != 0;
        for (unsigned i = 0; i < SLEN; ++i) {
            uint8_t c;
            SYM_SET(uint8_t, c, "chr");
            if (i < l) {
                ASSUME(c != 0);
            }
            s[k][i] = (i < l) ? (char) c : 0;
        }
        s[k][SLEN] = 0;
        int32_t rc = jls_buf_wr_str(b, isnull[k] ? NULL : s[k]);
        CHECK(rc == 0, "jls_buf_wr_str succeeds");
        inv(b);
    }
    uint32_t expect_len = (isnull[0] ? 0 : len[0]) + (isnull[1] ? 0 : len[1]) + 4;
    CHECK(jls_buf_length(b) == expect_len, "payload length = string bytes + {0,0x1f} per string");
    /* reader view of the same payload */
    b->cur = b->start;
    b->end = b->start + b->length;
    const char * r[2] = {NULL, NULL};
    for (unsigned k = 0; k < 2; ++k) {
        int32_t rc = jls_buf_rd_str(b, &r[k]);
        CHECK(rc == 0 && r[k] != NULL, "jls_buf_rd_str succeeds");
    }
    SYM_U32(wi);
    ASSUME(wi <= SLEN);
    for (unsigned k = 0; k < 2; ++k) {
        if (r[k]) {
            uint32_t l = isnull[k] ? 0 : len[k];
            if (wi < l) {
                CHECK(r[k][wi] == s[k][wi], "string byte reads back unchanged");
            } else if (wi == l) {
                CHECK(r[k][wi] == 0, "string reads back with the same length (absent string reads back empty)");
            }
        }
    }
    CHECK(b->cur == b->end, "both strings consume exactly the payload");
    jls_buf_free(b);
#elif defined(MODE_INTS)
    struct jls_buf_s * b = jls_buf_alloc();
    ASSUME(b != NULL);
    SYM_U8(v8); SYM_U16(v16); SYM_U32(v32); SYM_I64(v64); SYM_U32(fbits); SYM_U32(nz); SYM_U32(nb);
    ASSUME(nz <= 12 && nb <= 8);
    uint8_t bin[8];
    SYM_BYTES(bin, 8, "bin");
    float f = verif_f32_from_bits(fbits);
    CHECK(0 == jls_buf_wr_u8(b, v8), "wr_u8"); inv(b);
    CHECK(0 == jls_buf_wr_zero(b, nz), "wr_zero"); inv(b);
    CHECK(0 == jls_buf_wr_u16(b, v16), "wr_u16"); inv(b);
    CHECK(0 == jls_buf_wr_i64(b, v64), "wr_i64"); inv(b);
    CHECK(0 == jls_buf_wr_u32(b, v32), "wr_u32"); inv(b);
    CHECK(0 == jls_buf_wr_f32(b, f), "wr_f32"); inv(b);
    CHECK(0 == jls_buf_wr_bin(b, bin, nb), "wr_bin"); inv(b);
    CHECK(jls_buf_length(b) == 1 + nz + 2 + 8 + 4 + 4 + nb, "length is the sum of the field sizes");
    /* a payload read from a file is always followed by its padding + 4 checksum bytes inside the buffer */
    CHECK(0 == jls_buf_realloc(b, b->length + 8), "room for the footer");
    b->cur = b->start;
    b->end = b->start + b->length;
    uint8_t r8 = 0; uint16_t r16 = 0; uint32_t r32 = 0, rlo = 0, rhi = 0, rf = 0;
    CHECK(0 == jls_buf_rd_u8(b, &r8) && r8 == v8, "u8 round-trip");
    CHECK(0 == jls_buf_rd_skip(b, nz), "skip zeros");
    CHECK(0 == jls_buf_rd_u16(b, &r16) && r16 == v16, "u16 round-trip");
    CHECK(0 == jls_buf_rd_u32(b, &rlo) && 0 == jls_buf_rd_u32(b, &rhi), "i64 read as two u32");
    CHECK((((uint64_t) rhi) << 32 | rlo) == (uint64_t) v64, "i64 round-trip (little endian)");
    CHECK(0 == jls_buf_rd_u32(b, &r32) && r32 == v32, "u32 round-trip");
    CHECK(0 == jls_buf_rd_u32(b, &rf) && rf == fbits, "f32 round-trip (bit exact)");
    SYM_U32(wi);
    ASSUME(wi < 8);
    if (wi < nb) {
        CHECK(b->cur[wi] == bin[wi], "binary bytes round-trip");
    }
    CHECK(0 == jls_buf_rd_skip(b, nb) && b->cur == b->end, "fields consume exactly the payload");
    uint8_t dummy;
    CHECK(jls_buf_rd_u8(b, &dummy) == JLS_ERROR_EMPTY, "reading past the payload is an error");
    jls_buf_free(b);
#elif defined(MODE_GROW)
    struct jls_buf_s * b = jls_buf_alloc();
    ASSUME(b != NULL);
    SYM_U32(n0);
    ASSUME(n0 <= JLS_BUF_DEFAULT_SIZE);
    uint8_t pat[JLS_BUF_DEFAULT_SIZE];
    SYM_BYTES(pat, JLS_BUF_DEFAULT_SIZE, "pat");
    CHECK(0 == jls_buf_wr_bin(b, pat, n0), "fill"); inv(b);
    SYM_U32(size);
    ASSUME(size <= GROW_MAX);
    int32_t rc = jls_buf_realloc(b, size);
    CHECK(rc == 0, "growth succeeds (allocation failure is out of scope)");
    CHECK(b->alloc_size >= size, "allocation covers the request");
    CHECK(b->alloc_size <= 2 * (size_t) GROW_MAX + JLS_BUF_DEFAULT_SIZE, "growth is proportionate to the request");
    inv(b);
    CHECK((size_t) (b->cur - b->start) == n0 && b->length == n0, "cursor and length preserved by growth");
    SYM_U32(wi);
    ASSUME(wi < JLS_BUF_DEFAULT_SIZE);
    if (wi < n0) {
        CHECK(b->start[wi] == pat[wi], "content preserved by growth");
    }
    jls_buf_free(b);
#elif defined(MODE_RDCHUNK)
    membk_reset();
    static struct jls_core_s core;
    struct jls_raw_s * raw = NULL;
    int32_t rc = jls_raw_open(&raw, "f", "w");
    ASSUME(rc == 0 && raw != NULL);
#ifdef FIXED_PLEN
    const uint32_t plen = FIXED_PLEN;   /* a symbolic length makes the realloc size symbolic (measured: no verdict at 11 GB) */
#else
    SYM_U32(plen);
    ASSUME(plen <= PMAX);
#endif
    static uint8_t pay[PMAX];
    SYM_BYTES(pay, PMAX, "payload");
    struct jls_chunk_header_s h;
    memset(&h, 0, sizeof(h));
    h.tag = JLS_TAG_USER_DATA;
    h.chunk_meta = 0x1123;
    h.payload_length = plen;
    int64_t at = jls_raw_chunk_tell(raw);
    CHECK(0 == jls_raw_wr(raw, &h, pay), "chunk written");
    jls_raw_close(raw);
    raw = NULL;
    rc = jls_raw_open(&raw, "f", "r");
    ASSUME(rc == 0 && raw != NULL);
    core.raw = raw;
    core.buf = jls_buf_alloc();
    ASSUME(core.buf != NULL);
    CHECK(0 == jls_raw_chunk_seek(raw, at), "seek to the chunk");
    rc = jls_core_rd_chunk(&core);
    CHECK(rc == 0, "chunk of any payload length is read (buffer grows as needed)");
    if (rc == 0) {
        CHECK(core.chunk_cur.hdr.payload_length == plen && core.chunk_cur.hdr.chunk_meta == 0x1123 && core.chunk_cur.offset == at, "header delivered");
        CHECK(core.buf->length == plen && core.buf->cur == core.buf->start && core.buf->end == core.buf->start + plen, "buffer describes the payload");
        SYM_U32(wi);
        ASSUME(wi < PMAX);
        if (wi < plen) {
            CHECK(core.buf->start[wi] == pay[wi], "payload delivered unaltered");
        }
    }
    jls_raw_close(raw);
    jls_buf_free(core.buf);
#else
#error "no MODE"
#endif
    WITNESS_END();
}
