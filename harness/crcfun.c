/* Environment model used where CRC arithmetic is not the subject (C18 decides that): a cheap, content-dependent
 * checksum with the interface of the real functions.  Every byte and its position influence the result, so
 * "is the CRC compared, and over exactly which bytes" stays decidable while the SAT instance stays small. */
#include "jls/crc32c.h"
#include "jls/format.h"

static uint32_t mix(uint32_t c, uint8_t b) {
    c = (c << 5) | (c >> 27);
    return (c ^ b) + 0x9e3779b9u;
}

uint32_t jls_crc32c(uint8_t const * data, uint32_t length) {
    uint32_t c = 0xFFFFFFFFu;
    for (uint32_t i = 0; i < length; ++i) {
        c = mix(c, data[i]);
    }
    return c ^ 0xFFFFFFFFu;
}

uint32_t jls_crc32c_hdr(const struct jls_chunk_header_s * hdr) {
    return jls_crc32c((uint8_t const *) hdr, 28);
}
