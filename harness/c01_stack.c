/* Composition at the raw-layer seam: the REAL writer (wr_fsr.c, core.c, track.c, datatype.c) produces an FSR track in the
 * chunk-store model of the raw layer (rawstore.h), then the REAL reader (core.c) reads it back.
 * The structure is concrete (TOTAL samples per instance, small decimation factors set directly in the definition),
 * the data is symbolic: sample bytes, first sample id, split of the stream into two write calls, the read window,
 * and (MODE_FAULT) the ordinal of a failing chunk read.
 *
 * MODE_READ   (C01-O3/O4): length == TOTAL; any window reads back bit for bit; a second signal is written interleaved and read
 *             in between (reader cache keyed by signal).
 * MODE_STRUCT (C05-O3): independent decoder over the store: every INDEX is followed by the SUMMARY of the same signal/level/
 *             timestamp; level-1 index entries are 0 or the DATA chunk with timestamp t0+k*samples_per_data; level-N entries are
 *             the level-(N-1) INDEX chunks with the expected timestamps; item_next links per kind/level; head table.
 * MODE_FAULT  (C04-O2): a chunk read fails with MESSAGE_INTEGRITY at a symbolic ordinal: the reader call returns an error
 *             (never data) if the failed read happened during the call.
 * MODE_OMIT   (C15-O2): u8 signal with constant blocks (omitted by the writer): windows over stored and omitted blocks read
 *             back bit for bit; length unchanged.
 */
#include "common.h"
#include "rawstore.h"
#include "jls/core.h"
#include "jls/wr_fsr.h"
#include "jls/track.h"
#include "jls/ec.h"

#ifndef TOTAL
#define TOTAL 18
#endif
#ifndef BLOCK
#define BLOCK 4            /* samples_per_data */
#endif
#ifndef SDF
#define SDF 2              /* sample_decimate_factor */
#endif
#ifndef EPS
#define EPS 4              /* entries_per_summary */
#endif
#ifndef SUMDF
#define SUMDF 2            /* summary_decimate_factor */
#endif
#ifdef U8_SAMPLES
#define DT JLS_DATATYPE_U8
#define SBYTES 1
#else
#define DT JLS_DATATYPE_F32
#define SBYTES 4
#endif
#ifndef NSIG
#define NSIG 1
#endif
#ifndef RLEN_MAX
#define RLEN_MAX 6
#endif

#ifdef STUB_DT
/* datatype.c is not linked in this instance: the statistics fed to the summaries are constant zeros.  The summary VALUES are not
 * the subject here (C02), only the structure the writer builds and the reader follows; constant inputs keep the floating-point
 * reductions out of the formula. */
#include "jls/datatype.h"
int32_t jls_dt_buffer_to_f64(const void * src, uint32_t src_datatype, double * dst, size_t samples) {
    (void) src; (void) src_datatype;
    for (size_t i = 0; i < BLOCK; ++i) {
        if (i < samples) { dst[i] = 0.0; }
    }
    return 0;
}
#endif

static struct jls_core_s cw;        /* writer core */
static struct jls_core_s cr;        /* reader core */
static struct jls_core_fsr_s rd_fsr[3];
static uint8_t samples[3][TOTAL * SBYTES];

static void setup_signal(struct jls_core_s * c, uint16_t id) {
    struct jls_core_signal_s * s = &c->signal_info[id];
    s->parent = c;
    s->signal_def.signal_id = id;
    s->signal_def.source_id = 0;
    s->signal_def.signal_type = JLS_SIGNAL_TYPE_FSR;
    s->signal_def.data_type = DT;
    s->signal_def.sample_rate = 1000;
    s->signal_def.samples_per_data = BLOCK;
    s->signal_def.sample_decimate_factor = SDF;
    s->signal_def.entries_per_summary = EPS;
    s->signal_def.summary_decimate_factor = SUMDF;
    s->chunk_def.offset = 64;
    for (unsigned t = 0; t < 4; ++t) {
        s->tracks[t].parent = s;
        s->tracks[t].track_type = (uint8_t) t;
    }
}

void harness(void) {
    cw.raw = &st_raw;
    cr.raw = &st_raw;
    cw.buf = jls_buf_alloc();
    ASSUME(cw.buf != NULL);
    SYM_I64(id0);
    ASSUME(id0 > -((int64_t) 1 << 40) && id0 < ((int64_t) 1 << 40));
    SYM_U32(split);                      /* first call writes `split` samples, second the rest */
    ASSUME(split >= 1 && split < TOTAL);

    /* a first chunk so that no content chunk sits at the start of the store (as in a real file) */
    struct jls_chunk_header_s h0;
    memset(&h0, 0, sizeof(h0));
    h0.tag = JLS_TAG_USER_DATA;
    ASSUME(0 == jls_raw_wr(&st_raw, &h0, NULL));

    struct jls_core_fsr_s * wf[3] = {NULL, NULL, NULL};
    for (uint16_t id = 1; id <= NSIG; ++id) {
        setup_signal(&cw, id);
        ASSUME(0 == jls_fsr_open(&wf[id], &cw.signal_info[id]) && wf[id] != NULL);
        cw.signal_info[id].track_fsr = wf[id];
        ASSUME(0 == jls_track_wr_def(&cw.signal_info[id].tracks[JLS_TRACK_TYPE_FSR]));
        ASSUME(0 == jls_track_wr_head(&cw.signal_info[id].tracks[JLS_TRACK_TYPE_FSR]));
#ifdef CONST_BLOCKS
        /* u8: blocks 1 and 3 are constant (symbolic value), the others symbolic */
        SYM_BYTES(samples[id], TOTAL * SBYTES, "samples");
        {
            SYM_U8(cval);
            for (unsigned i = 0; i < BLOCK; ++i) {
                samples[id][1 * BLOCK + i] = cval;
                if (3 * BLOCK + i < TOTAL) { samples[id][3 * BLOCK + i] = (uint8_t) (cval ^ 0x55); }
            }
        }
#else
        SYM_BYTES(samples[id], TOTAL * SBYTES, "samples");
#endif
    }
    /* interleaved writes: sig1 part 1, sig2 part 1, sig1 part 2, sig2 part 2 */
    for (unsigned part = 0; part < 2; ++part) {
        for (uint16_t id = 1; id <= NSIG; ++id) {
            uint32_t from = part ? split : 0;
            uint32_t cnt = part ? (TOTAL - split) : split;
            int32_t rc = jls_wr_fsr_data(wf[id], id0 + from, samples[id] + from * SBYTES, cnt);
            CHECK(rc == 0, "write accepted");
        }
    }
    for (uint16_t id = 1; id <= NSIG; ++id) {
        jls_fsr_close(wf[id]);
    }
    ASSUME(0 == jls_core_wr_end(&cw));

    /* ---- reader ---- */
    cr.buf = jls_buf_alloc();
    cr.rd_index = jls_buf_alloc();
    cr.rd_summary = jls_buf_alloc();
    ASSUME(cr.buf != NULL && cr.rd_index != NULL && cr.rd_summary != NULL);
    for (uint16_t id = 1; id <= NSIG; ++id) {
        setup_signal(&cr, id);
        /* what jls_core_scan_signals restores from the track HEAD chunk */
        memcpy(cr.signal_info[id].tracks[JLS_TRACK_TYPE_FSR].head_offsets, cw.signal_info[id].tracks[JLS_TRACK_TYPE_FSR].head_offsets,
               sizeof(cw.signal_info[id].tracks[JLS_TRACK_TYPE_FSR].head_offsets));
        cr.signal_info[id].track_fsr = &rd_fsr[id];
        rd_fsr[id].parent = &cr.signal_info[id];
        rd_fsr[id].signal_length = -1;
    }

#if defined(MODE_STRUCT)
    /* ---- independent decoder over the store (format.h) ---- */
    SYM_U32(wk);
    ASSUME(wk < ST_N);
    if (wk < st_n) {
        struct jls_chunk_header_s * h = &st_hdr[wk];
        uint8_t tag = h->tag;
        if (tag == JLS_TAG_TRACK_FSR_INDEX) {
            uint8_t level = (uint8_t) (h->chunk_meta >> 12);
            CHECK(wk + 1 < st_n && st_hdr[wk + 1].tag == JLS_TAG_TRACK_FSR_SUMMARY && st_hdr[wk + 1].chunk_meta == h->chunk_meta,
                  "every INDEX is immediately followed by the SUMMARY of the same signal and level");
            struct jls_payload_header_s ih, sh;
            memcpy(&ih, st_pay[wk], 16);
            memcpy(&sh, st_pay[wk + 1], 16);
            CHECK(ih.timestamp == sh.timestamp, "INDEX and SUMMARY carry the same timestamp");
            CHECK(ih.entry_size_bits == 64 && h->payload_length == 16 + 8 * ih.entry_count, "FSR index entries are 64-bit offsets; payload length matches the entry count");
            CHECK(level >= 1 && ih.entry_count >= 1, "level and entry count in range");
            int64_t step = BLOCK;                                   /* samples per index entry at this level */
            if (level >= 2) { step *= (EPS / (BLOCK / SDF)); }
            for (uint8_t l = 3; l <= 15; ++l) { if (l <= level) { step *= SUMDF; } }
            SYM_U32(we);
            ASSUME(we < 8);
            if (we < ih.entry_count) {
                uint64_t e;
                memcpy(&e, st_pay[wk] + 16 + 8 * we, 8);
                if (e == 0) {
                    CHECK(level == 1, "only level-1 entries (omitted data blocks) may be 0");
                } else {
                    int ek = st_index((int64_t) e);
                    CHECK(ek >= 0, "index entry is the offset of a chunk");
                    if (ek >= 0) {
                        struct jls_payload_header_s ph;
                        memcpy(&ph, st_pay[ek], 16);
                        CHECK((st_hdr[ek].chunk_meta & 0x0fff) == (h->chunk_meta & 0x0fff), "index entry points to a chunk of the same signal");
                        if (level == 1) {
                            CHECK(st_hdr[ek].tag == JLS_TAG_TRACK_FSR_DATA, "level-1 index entry points to a DATA chunk");
                        } else {
                            CHECK(st_hdr[ek].tag == JLS_TAG_TRACK_FSR_INDEX && (st_hdr[ek].chunk_meta >> 12) == level - 1, "level-N index entry points to a level-(N-1) INDEX chunk");
                        }
                        CHECK(ph.timestamp == ih.timestamp + (int64_t) we * step, "entry k points to the chunk whose timestamp is t_index + k * step(level)");
                    }
                }
            }
            if (h->item_next) {
                int nk = st_index((int64_t) h->item_next);
                CHECK(nk >= 0 && st_hdr[nk].tag == tag && st_hdr[nk].chunk_meta == h->chunk_meta && st_hdr[nk].item_prev == (uint64_t) (ST_BASE + ST_STRIDE * (int64_t) wk),
                      "item_next/item_prev link INDEX chunks of one signal and level");
            }
        }
        if (tag == JLS_TAG_TRACK_FSR_DATA) {
            struct jls_payload_header_s ph;
            memcpy(&ph, st_pay[wk], 16);
            CHECK(ph.entry_size_bits == 8 * SBYTES && ph.entry_count >= 1 && ph.entry_count <= BLOCK, "DATA payload header");
            CHECK(((ph.timestamp - id0) % BLOCK) == 0 && ph.timestamp >= id0 && ph.timestamp < id0 + TOTAL, "DATA timestamps are first id + k * samples_per_data");
            CHECK(ph.entry_count == BLOCK || ph.timestamp + ph.entry_count == id0 + TOTAL, "only the last DATA chunk of a signal is short");
            if (h->item_next) {
                int nk = st_index((int64_t) h->item_next);
                CHECK(nk >= 0 && st_hdr[nk].tag == tag && st_hdr[nk].chunk_meta == h->chunk_meta, "item_next links DATA chunks of one signal");
            }
        }
    }
    /* head table: entry L is the first chunk of level L */
    {
        int64_t * ho = cw.signal_info[1].tracks[JLS_TRACK_TYPE_FSR].head_offsets;
        int k0 = st_index(ho[0]);
        CHECK(k0 >= 0 && st_hdr[k0].tag == JLS_TAG_TRACK_FSR_DATA && st_hdr[k0].item_prev == 0, "head entry 0 is the first DATA chunk");
        int k1 = st_index(ho[1]);
        CHECK(k1 >= 0 && st_hdr[k1].tag == JLS_TAG_TRACK_FSR_INDEX && (st_hdr[k1].chunk_meta >> 12) == 1 && st_hdr[k1].item_prev == 0, "head entry 1 is the first level-1 INDEX chunk");
    }
    CHECK(st_hdr[st_n - 1].tag == JLS_TAG_END, "the file ends with the END chunk");
#else
    ASSUME(0 == jls_core_scan_fsr_sample_id(&cr));
#ifdef MODE_FAULT
    SYM_U32(fault_at);
    ASSUME(fault_at < 40);
    st_fault_at = st_reads + fault_at;
#endif
    int64_t len = -1;
    int32_t rc = jls_core_fsr_length(&cr, 1, &len);
#ifndef MODE_FAULT
    CHECK(rc == 0 && len == TOTAL, "reader reports exactly the number of samples spanned by the writes");
    CHECK(cr.signal_info[1].signal_def.sample_id_offset == id0, "first sample id recovered from the first DATA chunk");
#else
    if (rc == 0) { CHECK(len == TOTAL || st_reads > st_fault_at, "a length is only reported from intact chunks"); }
    if (rc != 0) { rd_fsr[1].signal_length = TOTAL; }     /* continue with the known length to reach the data path */
#endif
#if NSIG > 1
    {   /* a read on the other signal first: primes the level-1 cache with the other signal's index */
        SYM_U32(s2);
        ASSUME(s2 < TOTAL);
        uint8_t tmp[SBYTES];
        rc = jls_core_fsr(&cr, 2, s2, tmp, 1);
#ifndef MODE_FAULT
        CHECK(rc == 0 && 0 == memcmp(tmp, samples[2] + s2 * SBYTES, SBYTES), "read on the second signal returns its own sample");
#endif
    }
#endif
    SYM_U32(start);
    SYM_U32(rlen);
    ASSUME(rlen >= 1 && rlen <= RLEN_MAX && (uint64_t) start + rlen <= TOTAL);
    uint8_t * obj = verif_malloc(RLEN_MAX * SBYTES);
    uint8_t * out = obj + (RLEN_MAX - rlen) * SBYTES;        /* documented size, ends at the end of the object */
    uint32_t reads_before = st_reads;
    rc = jls_core_fsr(&cr, 1, start, out, rlen);
#ifdef MODE_FAULT
    if (st_fault_at >= reads_before && st_fault_at < st_reads) {
        CHECK(rc != 0, "a failed chunk read (checksum mismatch) during the call is reported; no data is returned as valid");
    }
    if (rc == 0) {
        SYM_U32(w);
        ASSUME(w < rlen);
        CHECK(0 == memcmp(out + w * SBYTES, samples[1] + (start + w) * SBYTES, SBYTES), "whatever is returned as valid equals what was written");
    }
#else
    CHECK(rc == 0, "a window inside the signal is read without error");
    SYM_U32(w);
    ASSUME(w < rlen);
    CHECK(0 == memcmp(out + w * SBYTES, samples[1] + (start + w) * SBYTES, SBYTES), "sample read back equals the written sample bit for bit");
#endif
    (void) reads_before;
#endif
    WITNESS_END();
}
