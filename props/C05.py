from vlib import Obl, PORTFOLIO
from props.ts_common import ts_obl

TITLE = 'Files conform to the published format; an independent decoder agrees'
LEVEL_TEXT = ('bounded symbolic verification that the real writer layers establish the file invariant of format.h, checked by an independent decoder in the harness: '
              'raw framing (raw.c), FSR level structure (wr_fsr.c), annotation/UTC level structure (wr_ts.c), lists and head tables (core.c/track.c)')
TRUSTED = ['cbmc 6.11', 'membk.c', 'crcfun.c', 'the decoder clauses written from include/jls/format.h in the harnesses']
OUTSIDE = ['threaded writer output, jls_copy output and post-crash repair output', 'whole-file walk of arbitrary sessions (only per-layer invariants with bounded chunk counts)',
           'recovering the same content as the reader (argued through C01/C11/C12/C13 seams)']
EXPLANATION = ('O1 raw framing: NCH chunks with symbolic tags, metadata, link fields and payload lengths 0..PMAX are appended with the real jls_raw_wr and closed; the decoder '
               'walks the image: header checksums, alignment, zero padding, payload checksum extents, payload_prev_length chain, file length field.')


def obligations(tier):
    o = []
    nch = 2 if tier == 'quick' else 3
    pm = 10 if tier == 'quick' else 20
    o.append(Obl('O1_raw_framing', 'c04_raw.c', units=['raw.c'], stubs=['log_stub.c', 'membk.c', 'crcfun.c'],
                 defines=['MODE_FRAMING=1', 'MEMBK_SIZE=256'],
                 ladder=([('NCH2_P10', ['NCH=2', 'PMAX=10'], None, None)] if tier == 'quick' else
                         [('NCH3_P10', ['NCH=3', 'PMAX=10'], None, None), ('NCH2_P20', ['NCH=2', 'PMAX=20'], None, None), ('NCH2_P10', ['NCH=2', 'PMAX=10'], None, None)]),
                 unwind=pm + 40, timeout=900 if tier == 'quick' else 2400, backend=PORTFOLIO, mem_gb=24,
                 desc='append NCH chunks (symbolic payload length 0..PMAX incl. zero-length) + close; independent forward decode',
                 bound='chunk count and max payload per rung label'))
    o.append(Obl('O1_raw_framing_empty_middle_chunk', 'c04_raw.c', units=['raw.c'], stubs=['log_stub.c', 'membk.c', 'crcfun.c'],
                 defines=['MODE_FRAMING=1', 'MEMBK_SIZE=256', 'ZERO_MIDDLE=1', 'NCH=3', 'PMAX=%d' % (6 if tier == 'quick' else 10)],
                 unwind=pm + 40, timeout=900 if tier == 'quick' else 2400, backend=PORTFOLIO, mem_gb=24,
                 desc='three chunks, the middle one without payload (as every track DEF chunk), first non-empty: same decoder; in particular payload_prev_length of the third chunk is 0',
                 bound='3 chunks, payload lengths 5 / 0 / 0..PMAX (symbolic), all bytes and header fields symbolic'))
    o.append(ts_obl('O4_ts_levels_anno_D2_N5', False, 2, 5, timeout=900 if tier == 'quick' else 2400))
    if tier == 'thorough':
        o.append(ts_obl('O4_ts_levels_utc_D2_N7', True, 2, 7, timeout=3000, tiers=('thorough',)))
        o.append(ts_obl('O4_ts_levels_anno_D3_N10', False, 3, 10, timeout=3000, tiers=('thorough',)))
    return o
