from vlib import Obl, PORTFOLIO

TITLE = 'Definitions and user data round-trip; identity rules are enforced'
LEVEL_TEXT = ('bounded symbolic verification of the real payload codec (buffer.c), definition writer/parser (writer.c, core.c) and user-data path at internal seams, '
              'with small buffer hooks so that growth and string-block chaining occur within the bound')
TRUSTED = ['cbmc 6.11', 'membk.c', 'crcfun.c', 'size hooks JLS_VERIF_BUF_DEFAULT_SIZE / JLS_VERIF_BUF_STRING_SIZE']
OUTSIDE = ['strings longer than the stated bound', 'numeric block parameters symbolic through the normaliser (C16 decides the normaliser; here they are concrete)', 'MiB-scale payloads as such (covered only through the shrunken buffers)', 'more than 2-3 definitions per query']
EXPLANATION = ('O1: string and field codecs (write then read) with symbolic content, NULL strings, buffer growth and string-block chaining. '
               'O4: jls_core_rd_chunk reads a chunk whose payload length is symbolic around the read-buffer size. O2/O3: definition round-trip and identity rules.')

H_SMALL = ['JLS_VERIF_BUF_DEFAULT_SIZE=8', 'JLS_VERIF_BUF_STRING_SIZE=10']


def obligations(tier):
    o = []
    o.append(Obl('O1_strings', 'c13_buf.c', units=['buffer.c'], defines=H_SMALL + ['MODE_STR=1', 'SLEN=6'], unwind=12, timeout=600, backend=PORTFOLIO,
                 desc='two strings (<=6 bytes, or NULL) jls_buf_wr_str -> jls_buf_rd_str; 8-byte buffer (growth) and 10-byte string blocks (chaining)',
                 bound='2 strings, <= 6 bytes each'))
    o.append(Obl('O1_fields', 'c13_buf.c', units=['buffer.c'], defines=H_SMALL + ['MODE_INTS=1'], unwind=14, timeout=600, backend=PORTFOLIO,
                 desc='u8/zero/u16/i64/u32/f32/bin writers then readers; 8-byte buffer so every writer can trigger growth',
                 bound='one field of each kind, zero run <= 12, binary <= 8 bytes'))
    o.append(Obl('O4_grow', 'c13_buf.c', units=['buffer.c'], defines=['JLS_VERIF_BUF_DEFAULT_SIZE=8', 'JLS_VERIF_BUF_STRING_SIZE=10', 'MODE_GROW=1', 'GROW_MAX=4096'],
                 unwind=14, timeout=600, backend=PORTFOLIO,
                 desc='jls_buf_realloc(symbolic size <= 4096) from an 8-byte buffer: terminates, proportionate, cursor/length/content preserved',
                 bound='request <= 4096 bytes'))
    pm = 24
    for plen in ([4, 13, 16, 24] if tier == 'quick' else [0, 4, 12, 13, 16, 17, 20, 24]):
        ob = (Obl('O4_rd_chunk_growth_len%d' % plen, 'c13_buf.c', units=['core.c', 'raw.c', 'buffer.c'], stubs=['log_stub.c', 'membk.c', 'crcfun.c'],
                     defines=['JLS_VERIF_BUF_DEFAULT_SIZE=16', 'JLS_VERIF_BUF_STRING_SIZE=10', 'JLS_VERIF_SIGNAL_COUNT=1', 'JLS_VERIF_SOURCE_COUNT=1', 'JLS_VERIF_FSR_BUFFER_U64=2',
                              'MODE_RDCHUNK=1', 'PMAX=%d' % pm, 'MEMBK_SIZE=160', 'FIXED_PLEN=%d' % plen],
                     unwind=pm + 14, timeout=600, backend=PORTFOLIO,
                     desc='jls_core_rd_chunk on a chunk with a %d-byte payload (symbolic bytes) and a 16-byte read buffer: terminates, payload unaltered' % plen,
                     bound='payload length %d (instances around the buffer size: fits / payload fits but footer does not / larger), read buffer 16 bytes (hook)' % plen))
        ob.unwind_text = [('jls_core_rd_chunk', r'while \(1\)', 4)]     # at most: TOO_BIG, grow, success (proved by the unwinding assertion)
        o.append(ob)
    # O2/O3/O4 over the real raw layer + in-memory file (harness/c13_defs.c) returned no verdict; the same content over the chunk-store model of the raw layer:
    hd = ['JLS_VERIF_SIGNAL_COUNT=3', 'JLS_VERIF_SOURCE_COUNT=3', 'JLS_VERIF_BUF_DEFAULT_SIZE=256', 'JLS_VERIF_BUF_STRING_SIZE=96', 'JLS_VERIF_FSR_BUFFER_U64=2', 'ST_N=20', 'ST_PMAX=144']
    for nm, extra, desc in (('O2_O4_definitions_userdata_roundtrip', [], 'source + signal definitions (ids, verbatim numeric fields symbolic; strings fixed incl. absent and empty) and three user-data items '
                             '(symbolic 12-bit tags and bytes) written by the real writer and parsed back by jls_core_scan_* / jls_core_sources / jls_core_signals / jls_core_user_data'),
                            ('O3_identity_rules', ['MODE_IDENTITY=1'], 'duplicate source id, duplicate signal id, signal on an undefined source, data for an undefined signal: error code; no chunk is appended and no header or payload byte of the store changes')):
        o.append(Obl(nm, 'c13_codec.c', units=['core.c', 'track.c', 'writer.c', 'buffer.c', 'reader.c'],
                     defines=hd + extra, unwind=100, typed_calloc=True, flags=['--max-field-sensitivity-array-size', '4096'],
                     unwind_text=[('jls_core_scan_initial', r'for \(int i = 0', 12), ('jls_core_scan_sources', r'while \(1\)', 4), ('jls_core_scan_signals', r'while \(1\)', 14),
                                  ('jls_core_user_data', r'while \(pos\)', 6), ('jls_core_rd_chunk', r'while \(1\)', 3), ('jls_buf_rd_str', r'while \(self->cur != self->end\)', 8),
                                  ('jls_buf_realloc', r'while \(alloc_size < size\)', 3)],
                     timeout=800, backend=PORTFOLIO, mem_gb=20, objbits=10, desc=desc,
                     bound='one user source, one FSR signal, three user-data items; string contents and payload sizes fixed, ids/fields/tags/bytes symbolic',
                     assumes=['raw layer replaced by the chunk-store model rawstore.h (no checksums); wr_ts.c / wr_fsr.c not linked']))
    return o
