/* C13-O2/O3/O4: definitions and user data written by the real writer (writer.c, core.c, track.c, raw.c, buffer.c) into the
 * chunk-store model of the raw layer (rawstore.h) and read back by the real reader-side parsers (jls_core_scan_initial / _sources / _signals,
 * jls_core_sources / _signals, jls_core_user_data in core.c / reader.c).
 * Structure is concrete per instance (which items are written, string lengths, payload sizes); the content is symbolic:
 * string characters, ids within their range, numeric signal fields that are stored verbatim, user-data tags and bytes.
 */
#include "common.h"
#include "rawstore.h"
#include "jls/core.h"
#include "jls/raw.h"
#include "jls/writer.h"
#include "jls/reader.h"
#include "jls/wr_ts.h"
#include "jls/ec.h"

static struct jls_core_s cw, cr;
static struct jls_core_ts_s ts_a, ts_u;

int32_t jls_wr_ts_anno(struct jls_core_ts_s * self, int64_t timestamp, int64_t offset, enum jls_annotation_type_e t, uint8_t g, float y) {
    (void) self; (void) timestamp; (void) offset; (void) t; (void) g; (void) y; return 0;
}
int32_t jls_wr_ts_utc(struct jls_core_ts_s * self, int64_t sample_id, int64_t offset, int64_t utc) { (void) self; (void) sample_id; (void) offset; (void) utc; return 0; }
int32_t jls_wr_ts_open(struct jls_core_ts_s ** instance, struct jls_core_signal_s * parent, enum jls_track_type_e track_type, uint32_t decimate_factor) {
    (void) parent; (void) decimate_factor; *instance = (track_type == JLS_TRACK_TYPE_UTC) ? &ts_u : &ts_a; return 0;
}
int32_t jls_wr_ts_close(struct jls_core_ts_s * self) { (void) self; return 0; }
static struct jls_core_fsr_s fsr_dummy;
int32_t jls_fsr_open(struct jls_core_fsr_s ** instance, struct jls_core_signal_s * parent) { fsr_dummy.parent = parent; *instance = &fsr_dummy; return 0; }
int32_t jls_fsr_close(struct jls_core_fsr_s * self) { (void) self; return 0; }
int32_t jls_wr_fsr_data(struct jls_core_fsr_s * self, int64_t sample_id, const void * data, uint32_t data_length) {
    (void) self; (void) sample_id; (void) data; (void) data_length;
    VERIF_UNREACHABLE("sample data accepted for a signal that is not defined");
    return 0;
}

/* user data callback recorder */
#define UD_MAX 3
static int ud_n;
static uint16_t ud_meta[UD_MAX];
static int ud_type[UD_MAX];
static uint32_t ud_size[UD_MAX];
static uint8_t ud_bytes[UD_MAX][16];
static int32_t ud_cbk(void * user_data, uint16_t chunk_meta, enum jls_storage_type_e storage_type, uint8_t * data, uint32_t data_size) {
    (void) user_data;
    if (ud_n < UD_MAX) {
        ud_meta[ud_n] = chunk_meta; ud_type[ud_n] = storage_type; ud_size[ud_n] = data_size;
        for (unsigned i = 0; i < 16; ++i) { ud_bytes[ud_n][i] = (i < data_size) ? data[i] : 0; }
    }
    ++ud_n;
    return 0;
}

static void sym_str(char * s, unsigned len) {      /* fixed text: symbolic characters make every strlen (and with it every payload
                                                     * size and file offset) symbolic; the string codec itself is decided in O1_strings */
    static const char text[] = "kqxz";
    for (unsigned i = 0; i < 4; ++i) {
        s[i] = (i < len) ? text[(i + len) & 3] : 0;
    }
}

static bool str_eq(const char * a, const char * b) {    /* b may be NULL = absent = reads back empty */
    if (!a) { return false; }
    if (!b) { return a[0] == 0; }
    for (unsigned i = 0; i < 5; ++i) {
        if (a[i] != b[i]) { return false; }
        if (!a[i]) { return true; }
    }
    return true;
}

void harness(void) {
    struct jls_wr_s * wr = (struct jls_wr_s *) &cw;
    cw.buf = jls_buf_alloc();
    ASSUME(cw.buf != NULL);
    for (unsigned s = 0; s < JLS_SIGNAL_COUNT; ++s) {
        cw.signal_info[s].parent = &cw;
        for (unsigned t = 0; t < 4; ++t) {
            cw.signal_info[s].tracks[t].parent = &cw.signal_info[s];
            cw.signal_info[s].tracks[t].track_type = (uint8_t) t;
        }
    }
    cw.raw = &st_raw;
    {   /* the first 32 bytes of a real file are the file header: no chunk sits at the very start */
    }
    static const struct jls_source_def_s src0 = {.source_id = 0, .name = "g", .vendor = "j", .model = "-", .version = "1", .serial_number = "-"};
    static const struct jls_signal_def_s sig0 = {.signal_id = 0, .source_id = 0, .signal_type = JLS_SIGNAL_TYPE_VSR, .data_type = JLS_DATATYPE_F32,
        .samples_per_data = 10, .sample_decimate_factor = 10, .entries_per_summary = 10, .summary_decimate_factor = 10,
        .annotation_decimate_factor = 100, .utc_decimate_factor = 100, .name = "a", .units = ""};
    CHECK(0 == jls_wr_user_data(wr, 0, JLS_STORAGE_TYPE_INVALID, NULL, 0), "initial user data chunk");
    CHECK(0 == jls_wr_source_def(wr, &src0), "source 0");
#ifdef WITH_SIGNAL0
    CHECK(0 == jls_wr_signal_def(wr, &sig0), "signal 0");
#endif
    (void) sig0;

    /* ---- a user source: id symbolic in 1..2, strings of fixed lengths (one absent, one empty) with symbolic characters ---- */
    char sname[5], svend[5], sver[5];
    sym_str(sname, 3); sym_str(svend, 1); sym_str(sver, 2);
#ifndef SRC_ID
#define SRC_ID 2
#endif
    const uint16_t src_id = SRC_ID;      /* concrete: a symbolic id indexes the array of per-source structs symbolically (symex does not finish) */
    struct jls_source_def_s src = {.source_id = src_id, .name = sname, .vendor = svend, .model = NULL, .version = sver, .serial_number = ""};
    CHECK(0 == jls_wr_source_def(wr, &src), "user source accepted");

    /* ---- a signal on that source: id 1, annotation/utc factors and rate symbolic (stored verbatim), block parameters concrete ---- */
    char gname[5], gunits[5];
    sym_str(gname, 2); sym_str(gunits, 1);
    SYM_U32(rate); SYM_U32(adf); SYM_U32(udf);
    ASSUME(rate >= 1 && adf >= 10 && udf >= 10);
    struct jls_signal_def_s sig = {.signal_id = 1, .source_id = src_id, .signal_type = JLS_SIGNAL_TYPE_FSR, .data_type = JLS_DATATYPE_I16,
        .sample_rate = rate, .samples_per_data = 1000, .sample_decimate_factor = 100, .entries_per_summary = 200, .summary_decimate_factor = 100,
        .annotation_decimate_factor = adf, .utc_decimate_factor = udf, .name = gname, .units = gunits};
    CHECK(0 == jls_wr_signal_def(wr, &sig), "signal accepted");
    struct jls_signal_def_s stored = cw.signal_info[1].signal_def;      /* the parameters actually used for storage */

#ifdef MODE_IDENTITY
    /* ---- identity rules: rejected calls leave the file unchanged ---- */
    static uint8_t image[ST_N][ST_PMAX];
    static struct jls_chunk_header_s himage[ST_N];
    memcpy(image, st_pay, sizeof(image));
    memcpy(himage, st_hdr, sizeof(himage));
    uint32_t n0 = st_n;
    uint32_t ih0 = st_inplace_hdr, ip0 = st_inplace_pay;
    CHECK(jls_wr_source_def(wr, &src) != 0, "a second definition of an existing source id is rejected");
    CHECK(jls_wr_signal_def(wr, &sig) != 0, "a second definition of an existing signal id is rejected");
    struct jls_signal_def_s orphan = sig;
    orphan.signal_id = 2;
    orphan.source_id = (uint16_t) (3 - src_id);      /* the other user source id: not defined */
    CHECK(jls_wr_signal_def(wr, &orphan) != 0, "a signal naming an undefined source is rejected");
    int16_t smp[4] = {1, 2, 3, 4};
    CHECK(jls_wr_fsr(wr, 2, 0, smp, 4) != 0, "sample data for an undefined signal is rejected");
    CHECK(st_n == n0 && st_inplace_hdr == ih0 && st_inplace_pay == ip0, "rejected calls write nothing (no chunk appended, no header or payload rewritten)");
    SYM_U32(wk);
    SYM_U32(wb);
    ASSUME(wk < ST_N && wb < ST_PMAX);
    CHECK(st_pay[wk][wb] == image[wk][wb], "rejected calls leave every payload byte unchanged");
    CHECK(0 == memcmp(&st_hdr[wk], &himage[wk], sizeof(struct jls_chunk_header_s)), "rejected calls leave every chunk header unchanged");
#else
    /* ---- user data: tags symbolic (12 bits), bytes symbolic, sizes fixed per instance ---- */
    SYM_U16(tag1); SYM_U16(tag2);
    ASSUME(tag1 <= 0x0fff && tag2 <= 0x0fff);
    uint8_t b1[7], b2[1];
    SYM_BYTES(b1, 7, "ud1"); SYM_BYTES(b2, 1, "ud2");
    char str3[5];
    sym_str(str3, 3);
    CHECK(0 == jls_wr_user_data(wr, tag1, JLS_STORAGE_TYPE_BINARY, b1, 7), "binary user data accepted");
    CHECK(0 == jls_wr_user_data(wr, tag2, JLS_STORAGE_TYPE_BINARY, b2, 1), "binary user data accepted");
    CHECK(0 == jls_wr_user_data(wr, 0x0abc, JLS_STORAGE_TYPE_STRING, (const uint8_t *) str3, 0), "string user data accepted");
    ASSUME(0 == jls_core_wr_end(&cw));

    /* ---- reader side: the real scan + parse ---- */
    cr.buf = jls_buf_alloc();
    ASSUME(cr.buf != NULL);
    cr.raw = &st_raw;
    st_pos = ST_BASE;      /* reader starts at the first chunk, as after jls_raw_open("r") */
    CHECK(0 == jls_core_scan_initial(&cr), "initial scan finds the three list heads");
    CHECK(0 == jls_core_scan_sources(&cr), "sources parsed");
    CHECK(0 == jls_core_scan_signals(&cr), "signals parsed");
    struct jls_source_def_s * sources = NULL;
    struct jls_signal_def_s * signals = NULL;
    uint16_t n_src = 0, n_sig = 0;
    CHECK(0 == jls_core_sources(&cr, &sources, &n_src) && n_src == 2, "reserved source 0 and the user source are enumerated");
    CHECK(0 == jls_core_signals(&cr, &signals, &n_sig) && n_sig == 2, "signal slot 0 and the user signal are enumerated");
    if (n_src == 2 && n_sig == 2) {
        CHECK(sources[0].source_id == 0 && sources[1].source_id == src_id, "sources in id order");
        CHECK(str_eq(sources[1].name, sname) && str_eq(sources[1].vendor, svend) && str_eq(sources[1].model, NULL)
              && str_eq(sources[1].version, sver) && str_eq(sources[1].serial_number, ""), "source strings read back (absent string reads back empty)");
        CHECK(str_eq(sources[0].name, "g") && str_eq(sources[0].serial_number, "-"), "reserved source 0 intact");
        CHECK(signals[0].signal_id == 0 && signals[1].signal_id == 1, "signals in id order");
        struct jls_signal_def_s * g = &signals[1];
        CHECK(g->source_id == src_id && g->signal_type == JLS_SIGNAL_TYPE_FSR && g->data_type == JLS_DATATYPE_I16 && g->sample_rate == rate, "signal ids, type and rate read back");
        CHECK(g->samples_per_data == stored.samples_per_data && g->sample_decimate_factor == stored.sample_decimate_factor
              && g->entries_per_summary == stored.entries_per_summary && g->summary_decimate_factor == stored.summary_decimate_factor,
              "block parameters read back as actually used for storage");
        CHECK(g->annotation_decimate_factor == stored.annotation_decimate_factor && g->utc_decimate_factor == stored.utc_decimate_factor
              && stored.annotation_decimate_factor == adf && stored.utc_decimate_factor == udf, "annotation and UTC decimate factors read back, each in its own field");
        CHECK(str_eq(g->name, gname) && str_eq(g->units, gunits), "signal strings read back");
    }
    CHECK(0 == jls_core_user_data(&cr, ud_cbk, NULL), "user data iteration succeeds");
    CHECK(ud_n == 3, "every user-data item is delivered once (the initial chunk is not an item)");
    if (ud_n == 3) {
        CHECK(ud_meta[0] == tag1 && ud_type[0] == JLS_STORAGE_TYPE_BINARY && ud_size[0] == 7, "item 1: tag (12 bits), type, size");
        CHECK(ud_meta[1] == tag2 && ud_type[1] == JLS_STORAGE_TYPE_BINARY && ud_size[1] == 1, "item 2: tag, type, size");
        CHECK(ud_meta[2] == 0x0abc && ud_type[2] == JLS_STORAGE_TYPE_STRING && ud_size[2] == 4, "item 3: string item has size strlen + 1");
        SYM_U32(wi);
        ASSUME(wi < 7);
        CHECK(ud_bytes[0][wi] == b1[wi], "item 1 bytes unchanged");
        CHECK(ud_bytes[1][0] == b2[0], "item 2 byte unchanged");
        CHECK(ud_bytes[2][0] == (uint8_t) str3[0] && ud_bytes[2][2] == (uint8_t) str3[2] && ud_bytes[2][3] == 0, "item 3 string unchanged, NUL terminated");
    }
#endif
    WITNESS_END();
}
