/* C12-O2: time map (real src/tmap.c), allocation hook JLS_VERIF_TMAP_ALLOC_INIT=2 so growth happens within the bound.
 * N <= NMAX pairs with strictly increasing sample ids and non-decreasing times are added; then
 *   - every stored pair is reproduced exactly by both conversions,
 *   - no access outside the (exactly sized) arrays, also when the map is exactly full,
 *   - a sample id between two pairs maps into the closed time interval of its segment (monotone within a segment),
 *   - with a single pair the sample rate is used.
 */
#include "common.h"
#include "jls/tmap.h"
#include "jls/time.h"
#include "jls/format.h"
#include "jls/ec.h"

#ifndef NMAX
#define NMAX 4
#endif
#ifndef VBITS
#define VBITS 20
#endif

void harness(void) {
    struct jls_tmap_s * m = jls_tmap_alloc(1000.0);
    ASSUME(m != NULL);
    SYM_U32(n);
    ASSUME(n >= 1 && n <= NMAX);
    int64_t sid[NMAX], utc[NMAX];
    SYM_I64(s0);
    SYM_I64(u0);
#ifdef WITH_TICK
    /* tick accuracy is claimed for anchors of any magnitude (deltas stay small): sample ids and times up to 2^62 */
    ASSUME(s0 > -((int64_t) 1 << 62) && s0 < ((int64_t) 1 << 62));
    ASSUME(u0 > -((int64_t) 1 << 62) && u0 < ((int64_t) 1 << 62));
#else
    ASSUME(s0 > -((int64_t) 1 << 40) && s0 < ((int64_t) 1 << 40));
    ASSUME(u0 > -((int64_t) 1 << 61) && u0 < ((int64_t) 1 << 61));
#endif
    for (unsigned i = 0; i < NMAX; ++i) {
        SYM_U32(ds);
        SYM_U32(dt);
        ASSUME(ds >= 1 && ds < (1u << VBITS) && dt < (1u << VBITS));
        sid[i] = (i == 0) ? s0 : sid[i - 1] + ds;
        utc[i] = (i == 0) ? u0 : utc[i - 1] + dt;
        if (i < n) {
            int32_t rc = jls_tmap_add(m, sid[i], utc[i]);
            CHECK(rc == 0, "pair with increasing sample id accepted");
        }
    }
    SYM_U32(w);
    ASSUME(w < n);
    int64_t t = 0, s = 0;
    int32_t rc = jls_tmap_sample_id_to_timestamp(m, sid[w], &t);
    CHECK(rc == 0 && t == utc[w], "sample id -> time reproduces every stored pair exactly");
#ifdef WITH_INVERSE
    if (n >= 2) {
        bool unique_time = (w == 0 || utc[w - 1] != utc[w]) && (w + 1 >= n || utc[w + 1] != utc[w]);
        rc = jls_tmap_timestamp_to_sample_id(m, utc[w], &s);
        CHECK(rc == 0, "time -> sample id succeeds");
        if (unique_time) {
            CHECK(s == sid[w], "time -> sample id reproduces every stored pair with a unique time exactly");
        }
    }
#endif
#ifdef WITH_BETWEEN
    if (n >= 2 && w + 1 < n) {
        SYM_U32(off);
        ASSUME((int64_t) off <= sid[w + 1] - sid[w]);
        rc = jls_tmap_sample_id_to_timestamp(m, sid[w] + off, &t);
        CHECK(rc == 0 && t >= utc[w] && t <= utc[w + 1], "interpolated time stays inside its segment");
    }
#endif
#ifdef WITH_TICK
    /* "interpolates linearly ... to within one time tick of the exact value, and converting that time back returns the
     * original sample id to within one sample".  Exact oracle in integers (all factors < 2^VBITS, no overflow):
     *   |ds * (t - utc[w]) - off * dt| <= ds      and      |dt * (s - sid[w]) - toff * ds| <= dt                     */
    if (n >= 2 && w + 1 < n) {
        int64_t ds_ = sid[w + 1] - sid[w], dt_ = utc[w + 1] - utc[w];
#ifdef TICK_EXTRAP
        /* n == 2: ids before the first and after the last pair extrapolate from the only segment, same oracle with off outside [0, ds] */
        SYM_I32(off);
        ASSUME(off >= -(1 << VBITS) && (int64_t) off <= ds_ + (1 << VBITS));
#else
        SYM_U32(off);
        ASSUME((int64_t) off <= ds_);
#endif
        rc = jls_tmap_sample_id_to_timestamp(m, sid[w] + off, &t);
        int64_t e1 = ds_ * (t - utc[w]) - (int64_t) off * dt_;
        CHECK(rc == 0 && e1 <= ds_ && e1 >= -ds_, "interpolated time is within one tick of the exact linear value (anchors of any magnitude)");
        if (dt_ > 0) {
            SYM_U32(toff);
            ASSUME((int64_t) toff <= dt_);
            rc = jls_tmap_timestamp_to_sample_id(m, utc[w] + toff, &s);
            int64_t e2 = dt_ * (s - sid[w]) - (int64_t) toff * ds_;
            CHECK(rc == 0 && e2 <= dt_ && e2 >= -dt_, "interpolated sample id is within one sample of the exact linear value (anchors of any magnitude)");
        }
    }
#endif
#ifdef WITH_EXTRAP
    if (n >= 2) {
        SYM_U32(beyond);
        ASSUME(beyond >= 1 && beyond < (1u << VBITS));
        rc = jls_tmap_sample_id_to_timestamp(m, sid[n - 1] + beyond, &t);
        CHECK(rc == 0, "conversion after the last pair succeeds (extrapolation from the last segment)");
        rc = jls_tmap_sample_id_to_timestamp(m, sid[0] - (int64_t) beyond, &t);
        CHECK(rc == 0, "conversion before the first pair succeeds (extrapolation from the first segment)");
    }
#endif
    (void) s;
    jls_tmap_free(m);
    WITNESS_END();
}
