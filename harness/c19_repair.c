/* C19/C03: the real jls_track_repair_pointers (src/track.c, with jls_core_rd_chunk / jls_core_update_chunk_header of core.c) on
 * a timestamped track of a truncated file, over the chunk-store model of the raw layer (rawstore.h).
 * The track as a crash leaves it (concrete shape, symbolic contents):
 *   chunk 0   track HEAD, payload = head offsets: [0] -> first DATA chunk, [1] = 0 or the offset of a level-1 INDEX chunk
 *             that was lost with the cut (per instance), [2..15] = 0
 *   chunk 1..ND  DATA chunks linked by item_next; the last one points to a chunk that was lost with the cut (per instance:
 *             the cut position itself or beyond), or is 0 when the cut fell between two writes; payload bytes symbolic
 * After the repair the file must be self-consistent, so that a later open (which does not repair again: the file gets an END
 * chunk) reads the same as the repairing open:
 *   - the head offsets stored in the HEAD chunk equal the in-memory ones the repairing open goes on to use
 *   - no head offset and no item_next of the surviving chain points to something that is not a chunk of the file
 *   - the surviving chain itself is untouched
 */
#include "common.h"
#include "rawstore.h"
#include "jls/core.h"
#include "jls/raw.h"
#include "jls/track.h"
#include "jls/util.h"
#include "jls/ec.h"

#ifndef ND
#define ND 3
#endif
#ifndef TRACK
#define TRACK JLS_TRACK_TYPE_ANNOTATION
#endif

static struct jls_core_s core;

#define OFF(k) (ST_BASE + (int64_t) ST_STRIDE * (k))
#define CUT OFF(ND + 1)          /* where the file was cut = where the repair goes on to append */
#ifndef LOST_INDEX
#define LOST_INDEX CUT
#endif
#ifndef DANGLING
#define DANGLING CUT
#endif

#ifdef WITH_INDEX
/* A track with one surviving level-1 INDEX/SUMMARY pair (decimate factor 2):
 *   0 HEAD [0]->1 [1]->3 | 1 DATA a0 ->2 | 2 DATA a1 ->5 | 3 INDEX {a0,a1} -> IDX_NEXT | 4 SUMMARY -> SUM_NEXT | 5 DATA a2 -> DANGLING | cut
 * IDX_NEXT / SUM_NEXT / DANGLING: 0 or the offset of a chunk lost with the cut (per instance). */
#ifndef IDX_NEXT
#define IDX_NEXT (OFF(6) + 0 * ST_STRIDE)
#endif
#ifndef SUM_NEXT
#define SUM_NEXT (OFF(6) + 1 * ST_STRIDE)
#endif
#undef CUT
#define CUT OFF(6)
void harness(void) {
    struct jls_core_signal_s * sig = &core.signal_info[1];
    sig->parent = &core;
    sig->signal_def.signal_id = 1;
    sig->signal_def.signal_type = JLS_SIGNAL_TYPE_FSR;
    sig->chunk_def.offset = 64;
    struct jls_core_track_s * track = &sig->tracks[TRACK];
    track->parent = sig;
    track->track_type = TRACK;
    core.raw = &st_raw;
    core.buf = jls_buf_alloc();
    ASSUME(core.buf != NULL);

    const uint8_t t_data = jls_track_tag_pack(TRACK, JLS_TRACK_CHUNK_DATA);
    int64_t heads[JLS_SUMMARY_LEVEL_COUNT];
    memset(heads, 0, sizeof(heads));
    heads[0] = OFF(1);
    heads[1] = OFF(3);
    st_hdr[0].tag = jls_track_tag_pack(TRACK, JLS_TRACK_CHUNK_HEAD);
    st_hdr[0].chunk_meta = 1;
    st_hdr[0].payload_length = sizeof(heads);
    memcpy(st_pay[0], heads, sizeof(heads));
    static const unsigned data_at[3] = {1, 2, 5};
    for (unsigned d = 0; d < 3; ++d) {
        unsigned k = data_at[d];
        st_hdr[k].tag = t_data;
        st_hdr[k].chunk_meta = 1;
        st_hdr[k].payload_length = 32;
        st_hdr[k].item_prev = d ? (uint64_t) OFF(data_at[d - 1]) : 0;
        st_hdr[k].item_next = (d < 2) ? (uint64_t) OFF(data_at[d + 1]) : (uint64_t) (DANGLING);
        for (unsigned b = 0; b < 32; ++b) { SYM_SET(uint8_t, st_pay[k][b], "payload"); }
    }
    SYM_I64(ts0);
    SYM_U32(dts);
    ASSUME(ts0 > -((int64_t) 1 << 40) && ts0 < ((int64_t) 1 << 40) && dts < 1000);
    struct { struct jls_payload_header_s h; struct jls_index_entry_s e[2]; } ix;
    ix.h.timestamp = ts0; ix.h.entry_count = 2; ix.h.entry_size_bits = 128; ix.h.rsv16 = 0;
    ix.e[0].timestamp = ts0; ix.e[0].offset = (uint64_t) OFF(1);
    ix.e[1].timestamp = ts0 + dts; ix.e[1].offset = (uint64_t) OFF(2);
    st_hdr[3].tag = jls_track_tag_pack(TRACK, JLS_TRACK_CHUNK_INDEX);
    st_hdr[3].chunk_meta = (uint16_t) (1 | (1 << 12));
    st_hdr[3].payload_length = sizeof(ix);
    st_hdr[3].item_next = (uint64_t) (IDX_NEXT);
    memcpy(st_pay[3], &ix, sizeof(ix));
    st_hdr[4].tag = jls_track_tag_pack(TRACK, JLS_TRACK_CHUNK_SUMMARY);
    st_hdr[4].chunk_meta = (uint16_t) (1 | (1 << 12));
    st_hdr[4].payload_length = 16 + 2 * 16;
    st_hdr[4].item_next = (uint64_t) (SUM_NEXT);
    for (unsigned b = 0; b < 48; ++b) { SYM_SET(uint8_t, st_pay[4][b], "payload"); }
    st_n = 6;
    st_last_payload_length = 32;
    st_pos = OFF(6);
    static struct jls_chunk_header_s h0[6];
    static uint8_t p0[6][ST_PMAX];
    memcpy(h0, st_hdr, sizeof(h0));
    memcpy(p0, st_pay, sizeof(p0));
    track->head.offset = OFF(0);
    track->head.hdr = st_hdr[0];
    memcpy(track->head_offsets, heads, sizeof(heads));

    int32_t rc = jls_track_repair_pointers(track);
    CHECK(rc == 0, "pointer repair succeeds");
    CHECK(st_n == 6, "pointer repair appends nothing");
    int64_t disk[JLS_SUMMARY_LEVEL_COUNT];
    memcpy(disk, st_pay[0], sizeof(disk));
    SYM_U32(lv);
    ASSUME(lv < JLS_SUMMARY_LEVEL_COUNT);
    CHECK(disk[lv] == track->head_offsets[lv], "the head offsets stored in the file equal the in-memory ones the repairing open goes on to use");
    CHECK(disk[0] == OFF(1) && disk[1] == OFF(3), "surviving levels keep their heads");
    CHECK(lv < 2 || disk[lv] == 0, "no other level appears");
    SYM_U32(wk);
    ASSUME(wk >= 1 && wk <= 5);
    CHECK(st_hdr[wk].item_next == 0 || st_index((int64_t) st_hdr[wk].item_next) >= 0, "no item_next of a surviving chunk points to something that is not a chunk of the file");
    CHECK(st_hdr[wk].item_next == h0[wk].item_next || (st_index((int64_t) h0[wk].item_next) < 0 && st_hdr[wk].item_next == 0), "a link is either untouched or a dangling one cleared");
    CHECK(st_hdr[wk].item_prev == h0[wk].item_prev && st_hdr[wk].payload_length == h0[wk].payload_length && st_hdr[wk].chunk_meta == h0[wk].chunk_meta && st_hdr[wk].tag == h0[wk].tag,
          "the rest of every surviving header is untouched");
    SYM_U32(wb);
    ASSUME(wb < 48);
    CHECK(st_pay[wk][wb] == p0[wk][wb], "payloads of the surviving chunks are untouched");
    WITNESS_END();
}
#else
void harness(void) {
    struct jls_core_signal_s * sig = &core.signal_info[1];
    sig->parent = &core;
    sig->signal_def.signal_id = 1;
    sig->signal_def.signal_type = JLS_SIGNAL_TYPE_FSR;
    sig->chunk_def.offset = 64;
    struct jls_core_track_s * track = &sig->tracks[TRACK];
    track->parent = sig;
    track->track_type = TRACK;
    core.raw = &st_raw;
    core.buf = jls_buf_alloc();
    ASSUME(core.buf != NULL);

    /* head offset of level 1 (none, or a chunk lost with the cut) and item_next of the last surviving DATA chunk: concrete per instance.
     * Symbolic offsets make every access of the store model a symbolic-index access (11 GB, no verdict). */
    const int64_t lost_index = LOST_INDEX;
    const int64_t dangling = DANGLING;

    /* chunk 0: HEAD */
    st_hdr[0].tag = jls_track_tag_pack(TRACK, JLS_TRACK_CHUNK_HEAD);
    st_hdr[0].chunk_meta = 1;
    st_hdr[0].payload_length = JLS_SUMMARY_LEVEL_COUNT * sizeof(int64_t);
    int64_t heads[JLS_SUMMARY_LEVEL_COUNT];
    memset(heads, 0, sizeof(heads));
    heads[0] = OFF(1);
    heads[1] = lost_index;
    memcpy(st_pay[0], heads, sizeof(heads));
    /* DATA chunks */
    for (unsigned k = 1; k <= ND; ++k) {
        st_hdr[k].tag = jls_track_tag_pack(TRACK, JLS_TRACK_CHUNK_DATA);
        st_hdr[k].chunk_meta = 1;
        st_hdr[k].payload_length = 32;
        st_hdr[k].item_prev = (k > 1) ? (uint64_t) OFF(k - 1) : 0;
        st_hdr[k].item_next = (k < ND) ? (uint64_t) OFF(k + 1) : (uint64_t) dangling;
        for (unsigned b = 0; b < 32; ++b) { SYM_SET(uint8_t, st_pay[k][b], "payload"); }
    }
    st_n = ND + 1;
    st_last_payload_length = 32;
    st_pos = OFF(ND + 1);
    /* in-memory state as jls_core_scan_signals leaves it */
    track->head.offset = OFF(0);
    track->head.hdr = st_hdr[0];
    memcpy(track->head_offsets, heads, sizeof(heads));

    int32_t rc = jls_track_repair_pointers(track);
    CHECK(rc == 0, "pointer repair succeeds");
    CHECK(st_n == ND + 1, "pointer repair appends nothing");

    int64_t disk[JLS_SUMMARY_LEVEL_COUNT];
    memcpy(disk, st_pay[0], sizeof(disk));
    SYM_U32(lv);
    ASSUME(lv < JLS_SUMMARY_LEVEL_COUNT);
    CHECK(disk[lv] == track->head_offsets[lv], "the head offsets stored in the file equal the in-memory ones the repairing open goes on to use");
    CHECK(disk[lv] == 0 || st_index(disk[lv]) >= 0, "no stored head offset points to something that is not a chunk of the file");
#if ND > 0
    CHECK(disk[0] == OFF(1), "the first DATA chunk stays the head of level 0");
    SYM_U32(wk);
    ASSUME(wk >= 1 && wk <= ND);
    CHECK(st_hdr[wk].item_next == 0 || st_index((int64_t) st_hdr[wk].item_next) >= 0, "no item_next of the surviving chain points to something that is not a chunk of the file");
    if (wk < ND) {
        CHECK(st_hdr[wk].item_next == (uint64_t) OFF(wk + 1), "links between surviving chunks are untouched");
    }
    CHECK(st_hdr[wk].item_prev == ((wk > 1) ? (uint64_t) OFF(wk - 1) : 0) && st_hdr[wk].payload_length == 32 && st_hdr[wk].chunk_meta == 1
          && st_hdr[wk].tag == jls_track_tag_pack(TRACK, JLS_TRACK_CHUNK_DATA), "the rest of every surviving header is untouched");
#endif
    CHECK(st_inplace_pay <= 1, "the only payload rewritten is the HEAD chunk's");
    WITNESS_END();
}
#endif
