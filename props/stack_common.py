from vlib import Obl, PORTFOLIO

HOOKS = ['JLS_VERIF_SIGNAL_COUNT=3', 'JLS_VERIF_SOURCE_COUNT=2', 'JLS_VERIF_FSR_BUFFER_U64=2', 'JLS_VERIF_BUF_DEFAULT_SIZE=160', 'JLS_VERIF_BUF_STRING_SIZE=16',
         'JLS_VERIF_F64_BUF_LENGTH_MIN=16']


def stack_obl(name, mode, total, extra=(), timeout=900, tiers=('quick', 'thorough'), desc='', bound='', nsig=1, mem_gb=24, real_dt=False):
    sbytes = 1 if 'U8_SAMPLES=1' in extra else 4
    return Obl(name, 'c01_stack.c', units=['wr_fsr.c', 'core.c', 'track.c', 'buffer.c'] + (['datatype.c'] if real_dt else []), stubs=['log_stub.c', 'fp_stub.c'],
               defines=HOOKS + ['MODE_%s=1' % mode, 'TOTAL=%d' % total, 'NSIG=%d' % nsig] + ([] if real_dt else ['STUB_DT=1']) + list(extra),
               unwind=20, unwindset=['wr_summary:4', 'jls_core_fsr_summaryN:4', 'jls_core_fsr_summary1:3'], unwind_text=[('harness', r'SYM_BYTES', total * sbytes + 2),
                                       ('jls_core_fsr_summaryN', r'SUMMARYN_BODY_TEMPLATE', 4), ('jls_core_fsr_summary1', r'idx < summaries_per', 4),
                                       ('jls_core_fsr_summary1', r'sample < self->parent->signal_def.sample_decimate_factor', 4),                                        ('harness', r'i < BLOCK', 6)],
               timeout=timeout, backend=PORTFOLIO, typed_calloc=True, objbits=10, tiers=tiers, mem_gb=mem_gb,
               desc=desc, bound=bound or '%d samples per signal (fixed per instance), block 4, decimation 2/4/2 (3 index levels), %d signal(s)' % (total, nsig),
               assumes=['raw layer replaced by the chunk-store model rawstore.h (no checksums)', 'reader state restored from the writer head table as jls_core_scan_signals would'])
