/* CBMC build only: models of floating-point library pieces for which CBMC has no (or no deterministic) model.
 * IEEE semantics; part of the environment model.
 *   __builtin_isfinite : gcc's type-generic isfinite(); finite = neither infinite nor NaN
 *   roundf / round     : round half away from zero (C99), exact for |x| < 2^62 which covers every use in jls
 */
#ifndef REPLAY
int __builtin_isfinite(double x) { return __CPROVER_isfinited(x); }
float roundf(float x) {
    if (x != x || x >= 4.0e18f || x <= -4.0e18f) { return x; }
    long long t = (long long) x;                 /* truncation toward zero */
    float f = (float) t;
    float d = x - f;
    if (d >= 0.5f) { return f + 1.0f; }
    if (d <= -0.5f) { return f - 1.0f; }
    return f;
}
double round(double x) {
    if (x != x || x >= 4.0e18 || x <= -4.0e18) { return x; }
    long long t = (long long) x;
    double f = (double) t;
    double d = x - f;
    if (d >= 0.5) { return f + 1.0; }
    if (d <= -0.5) { return f - 1.0; }
    return f;
}
#else
typedef int verif_fp_stub_unused;
#endif
