from vlib import Obl, PORTFOLIO
from props.C14 import HOOKS, OPS

TITLE = 'A writer stopped at any point leaves a file that reopens to a correct prefix'
LEVEL_TEXT = ('partial: bounded symbolic verification of the WRITE ORDER of the real file-touching writer primitives (raw.c, core.c, track.c, writer.c, buffer.c) over an in-memory backend with a '
              'write log: every in-place write (header link rewrite, track head-table rewrite) stores pointers only to chunks that were completely in the file when the write was issued, so a writer '
              'stopped between two backend writes leaves no pointer to a missing or partial chunk. The recovery scan, repair and what the reader then exposes are NOT decided here '
              '(pointer repair of cut timestamp tracks: C19-O3).')
TRUSTED = ['cbmc 6.11', 'membk.c (write log with the file length before every write)', 'crcstub.c', 'typed_calloc.h', 'chunk map decoder in harness/c14_writeonce.c', 'wr_ts.c / wr_fsr.c not linked (their file effects go through the primitives exercised)']
OUTSIDE = ['stops in the middle of one backend write', 'the backward scan for the last complete chunk (jls_core_rd_chunk_end: harness/c03_scan.c and c03_tail.c returned no verdict)', 'repair of FSR summaries, what the reader exposes after repair, the <= one block loss bound',
           'sequences longer than the definitions + 2 operations', 'operating-system write reordering (the property is stated over the order of backend writes)']
EXPLANATION = ('Same harness as C14 (real open + definitions, then two operations with symbolic arguments/payload bytes) in ORDER_CHECK mode: for every logged backend write that lies entirely below the file end at '
               'the time it was issued: a 32-byte chunk-header rewrite must carry item_next = 0 or the offset of a chunk whose header+payload+padding+checksum were already inside the file; '
               'a track head-table rewrite must hold only such offsets. Checked for the writes of open/definitions and after each operation.')


def obligations(tier):
    o = []
    pairs = [(0, 0), (3, 3), (4, 4), (5, 5), (6, 6), (2, 1)]
    if tier == 'thorough':
        pairs += [(1, 1), (5, 3), (3, 0), (0, 3), (4, 3), (0, 2), (6, 5), (3, 4)]
    for a, b in pairs:
        o.append(Obl('O1_write_order_%s_then_%s' % (OPS[a], OPS[b]), 'c14_writeonce.c', units=['raw.c', 'core.c', 'track.c', 'writer.c', 'buffer.c'],
                     stubs=['log_stub.c', 'membk.c', 'crcstub.c'], defines=HOOKS + ['ORDER_CHECK=1', 'KOPS=2', 'OP1=%d' % a, 'OP2=%d' % b, 'PLEN_FIXED=5'], unwind=100, typed_calloc=True,
                     flags=['--max-field-sensitivity-array-size', '2048'], timeout=800, backend=PORTFOLIO, mem_gb=20, objbits=10,
                     desc='open + definitions, then %s and %s (symbolic arguments/payloads): every in-place header or head-table write points only to chunks already completely in the file' % (OPS[a], OPS[b]),
                     bound='definitions + 2 operations (fixed kinds per instance), payload length fixed (5 data bytes, symbolic content), one FSR signal, sources 0..2'))
    return o
