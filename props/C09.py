from vlib import Obl, PORTFOLIO
from props.C01 import packer, WIDTHS, BLOCKS

TITLE = 'Gaps read back as fill values, overlapping writes keep the first-written samples'
LEVEL_TEXT = ('bounded symbolic verification of the real gap/overlap handling in jls_wr_fsr_data (wr_fsr.c) at the block-stream seam, one instance per width: '
              'second/third call starts at expected_next + delta with delta symbolic (gap incl. larger than the scratch buffer for >=8-bit types, overlap incl. '
              'sub-byte-unaligned and total)')
TRUSTED = ['cbmc 6.11', 'recording stubs at jls_core_fsr_summary1 / jls_core_wr_data / jls_raw_chunk_tell', 'specification-stream oracle (first-written wins; gap = 0 / NaN)',
           'scratch buffer shrunk to 2 words by hook JLS_VERIF_FSR_BUFFER_U64']
OUTSIDE = ['gaps larger than the scratch for u1/u4 (would need > 128 / 32 samples of gap)', 'more than 3 calls', 'writes that start before the first sample id of the signal',
           '"summaries treat gap samples of float signals as absent" is decided under C02 (NaN inputs to the level-1 reduction)']
EXPLANATION = ('Same harness as C01-O1 (harness/c01_packer.c) with the start of call k+1 = expected next id + delta_k. The oracle stream keeps already accepted samples, fills '
               'gaps with 0 (integers) or NaN (floats) and has length last id + 1 - first id; one symbolic watched sample compares it with the stored block stream. '
               'Termination of the gap/overlap loops is proved by unwinding assertions.')

# gap bound: larger than the (hooked, 16-byte) scratch where that is reachable
DMAX = {1: 6, 4: 6, 8: 18, 16: 10, 24: 6, 32: 5, 64: 3}


def gapov(name, bits, ncalls, dmin, dmax, timeout, tiers=('quick', 'thorough'), nmax=None):
    o = packer(name, bits, ncalls, dmin, dmax, timeout, nmax=nmax, tiers=tiers,
               desc='%d-bit samples, %d calls, call k+1 starts at expected+delta, delta in [%d,%d]' % (bits, ncalls, dmin, dmax))
    block = BLOCKS[bits]
    n_per_call = (nmax or (2 * block + 1)) + max(dmax, 0)
    o.unwind = max(o.unwind, (ncalls * n_per_call) // block + 4)
    return o


def obligations(tier):
    o = []
    to = 900 if tier == 'quick' else 2400
    quick_gap = (4, 16, 32)
    quick_ov = (4, 8)      # w1 runs in the thorough tier: C09 quick has to stay well below 900 s
    for bits in WIDTHS:
        nm = BLOCKS[bits] + 1 if bits < 8 else 3
        if tier == 'thorough' or bits in quick_gap:
            o.append(gapov('GAP_w%d' % bits, bits, 2, 1, DMAX[bits], to, nmax=nm))
        if tier == 'thorough' or bits in quick_ov:
            o.append(gapov('OVERLAP_w%d' % bits, bits, 2, -(nm), -1, to, nmax=nm))
    # Three-call sequences (gap or overlap between each pair, MIXED3_w*) returned no verdict in 3000 s / 9-12 GB per width: not claimed.
    return o
