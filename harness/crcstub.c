/* Environment model used where the checksum is not the subject at all (C14): content-independent value with the
 * interface of the real functions.  C18 decides CRC correctness, C04 decides where it is compared. */
#include "jls/crc32c.h"
#include "jls/format.h"
uint32_t jls_crc32c(uint8_t const * data, uint32_t length) { (void) data; return 0x5a5a0000u ^ length; }
uint32_t jls_crc32c_hdr(const struct jls_chunk_header_s * hdr) { (void) hdr; return 0x5a5a001cu; }
