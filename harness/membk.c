#include "membk.h"
#include "jls/ec.h"
#include <string.h>
#include <stdio.h>

uint8_t membk_file[MEMBK_SIZE];
int64_t membk_len;
int64_t membk_os_pos;
int membk_open_count;
uint32_t membk_n_writes;
uint32_t membk_n_truncates;
struct membk_wr_s membk_log[MEMBK_LOG];
char membk_last_mode;

void membk_reset(void) {
    membk_len = 0;
    membk_os_pos = 0;
    membk_open_count = 0;
    membk_n_writes = 0;
    membk_n_truncates = 0;
}

int32_t jls_bk_fopen(struct jls_bkf_s * self, const char * filename, const char * mode) {
    (void) filename;
    switch (mode[0]) {
        case 'w': membk_len = 0; break;      /* O_TRUNC */
        case 'r': break;
        case 'a': break;
        default: return JLS_ERROR_PARAMETER_INVALID;
    }
    membk_last_mode = mode[0];
    membk_os_pos = 0;
    self->fd = 3;
    ++membk_open_count;
    return 0;
}

int32_t jls_bk_fclose(struct jls_bkf_s * self) {
    if (self->fd != -1) {
        self->fd = -1;
    }
    return 0;
}

int32_t jls_bk_fwrite(struct jls_bkf_s * self, const void * buffer, unsigned int count) {
    if (membk_last_mode == 'r') {
        return JLS_ERROR_IO;                 /* O_RDONLY: write(2) fails */
    }
    if (membk_os_pos < 0 || membk_os_pos + (int64_t) count > MEMBK_SIZE) {
        return JLS_ERROR_IO;                 /* model limit: device full */
    }
    if (membk_n_writes < MEMBK_LOG) {
        membk_log[membk_n_writes].pos = membk_os_pos;
        membk_log[membk_n_writes].count = count;
        membk_log[membk_n_writes].fend_before = membk_len;
    }
    ++membk_n_writes;
    if (membk_os_pos > membk_len) {          /* hole */
        memset(membk_file + membk_len, 0, (size_t) (membk_os_pos - membk_len));
    }
    if (count) {
        memcpy(membk_file + membk_os_pos, buffer, count);
    }
    membk_os_pos += count;
    if (membk_os_pos > membk_len) {
        membk_len = membk_os_pos;
    }
    self->fpos += count;
    if (self->fpos > self->fend) {
        self->fend = self->fpos;
    }
    return 0;
}

int32_t jls_bk_fread(struct jls_bkf_s * self, void * const buffer, unsigned const buffer_size) {
    int64_t avail = membk_len - membk_os_pos;
    if (avail < 0) {
        avail = 0;
    }
    int64_t sz = (int64_t) buffer_size < avail ? (int64_t) buffer_size : avail;
    if (sz > 0) {
        memcpy(buffer, membk_file + membk_os_pos, (size_t) sz);
    }
    membk_os_pos += sz;
    self->fpos += sz;
    if (sz != (int64_t) buffer_size) {
        return JLS_ERROR_IO;
    }
    return 0;
}

int32_t jls_bk_fseek(struct jls_bkf_s * self, int64_t offset, int origin) {
    int64_t pos;
    switch (origin) {
        case 0 /* SEEK_SET */: pos = offset; break;
        case 1 /* SEEK_CUR */: pos = membk_os_pos + offset; break;
        case 2 /* SEEK_END */: pos = membk_len + offset; break;
        default: return JLS_ERROR_IO;
    }
    if (pos < 0) {
        return JLS_ERROR_IO;
    }
    membk_os_pos = pos;
    self->fpos = pos;
    return 0;
}

int64_t jls_bk_ftell(struct jls_bkf_s * self) {
    (void) self;
    return membk_os_pos;
}

int32_t jls_bk_fflush(struct jls_bkf_s * self) {
    (void) self;
    return 0;
}

int32_t jls_bk_truncate(struct jls_bkf_s * self) {
    if (membk_last_mode == 'r') {
        return JLS_ERROR_IO;
    }
    ++membk_n_truncates;
    if (self->fpos < membk_len) {
        membk_len = self->fpos;
    } else if (self->fpos > membk_len) {
        if (self->fpos > MEMBK_SIZE) {
            return JLS_ERROR_IO;
        }
        memset(membk_file + membk_len, 0, (size_t) (self->fpos - membk_len));
        membk_len = self->fpos;
    }
    if (self->fend > self->fpos) {
        self->fend = self->fpos;
    }
    return 0;
}
