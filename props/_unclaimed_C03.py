from vlib import Obl, PORTFOLIO

TITLE = 'A writer stopped at any point leaves a file that reopens to a correct prefix'
LEVEL_TEXT = ('bounded symbolic verification of the recovery scan (real jls_core_rd_chunk_end in core.c over raw.c and an in-memory backend): on any file tail of bounded length the scan '
              'terminates and reports exactly the last complete, checksum-valid chunk, or NOT_FOUND if there is none. The end-to-end crash statement is NOT decided.')
TRUSTED = ['cbmc 6.11', 'membk.c', 'crcfun.c (content-dependent checksum)', 'validity predicate of a chunk written from format.h in harness/c03_scan.c']
OUTSIDE = ['the crash quantifier end to end (which prefix the reader then exposes; the <= one-block loss bound; annotations/UTC after a crash): a symbolic crash point through the whole reader is out of reach '
           'and one run per crash point would be enumeration', 'write ordering of the individual writer operations (O1 not built)', 'pointer repair (jls_track_repair_pointers, jls_core_repair_fsr)',
           'files longer than the 1 KiB scan window: the hand-derived candidate that a valid last chunk starting exactly 1024 bytes before the aligned end is skipped is NOT confirmed by a check']
EXPLANATION = ('O2: file = valid unclosed file header + TAIL fully symbolic bytes with symbolic (also unaligned) length. After the real scan a symbolic watched aligned position is '
               'compared against the format.h validity predicate: success => the reported chunk is valid and complete and nothing valid lies behind it; NOT_FOUND => nothing valid anywhere.')


def obligations(tier):
    o = []
    tail = 40 if tier == 'quick' else 64
    o.append(Obl('O2_backward_scan', 'c03_scan.c', units=['core.c', 'raw.c', 'buffer.c'], seams={'buffer.c': ['jls_buf_realloc']}, stubs=['log_stub.c', 'membk.c', 'crcfun.c'],
                 defines=['JLS_VERIF_SIGNAL_COUNT=1', 'JLS_VERIF_SOURCE_COUNT=1', 'JLS_VERIF_FSR_BUFFER_U64=2', 'JLS_VERIF_BUF_DEFAULT_SIZE=256', 'JLS_VERIF_BUF_STRING_SIZE=16',
                          'TAIL=%d' % tail, 'MEMBK_SIZE=256'],
                 unwind=24, unwind_text=[('harness', r'SYM_BYTES', tail + 2), ('jls_crc32c', r'i < length', 30), ('harness', r'k < \(32 \+ TAIL\) / 8', tail // 8 + 6), ('jls_core_rd_chunk', r'while \(1\)', 3),
                                         ('jls_core_rd_chunk_end', r'while \(\(end_pos > 0\)', 3), ('jls_core_rd_chunk_end', r'for \(int64_t i', tail // 8 + 2)],
                 typed_calloc=True, timeout=900 if tier == 'quick' else 3000, backend=PORTFOLIO, mem_gb=24, objbits=10,
                 desc='jls_core_rd_chunk_end on a fully symbolic file tail: finds exactly the last complete valid chunk or reports NOT_FOUND',
                 bound='tail of %d symbolic bytes behind the file header, symbolic file length (aligned or not); checksum-valid headers announce payloads <= 8 bytes' % tail,
                 assumes=['no checksum-valid header in the tail announces a payload longer than 8 bytes (read-buffer growth is decided in C13-O4)']))
    return o
