from vlib import Obl, PORTFOLIO

TITLE = 'Corrupted bytes are detected, never returned as valid content'
LEVEL_TEXT = ('bounded symbolic verification of the trust points of the real raw layer (raw.c) over an in-memory backend with a content-dependent checksum stub: '
              'every accepted header / payload / file header has a matching checksum over exactly the documented bytes and is returned unaltered; '
              'error propagation of reader entry points at the jls_core_rd_chunk seam; detection strength of the real CRC for <=3 flipped bits and bursts <=32')
TRUSTED = ['cbmc 6.11', 'membk.c (in-memory POSIX file model)', 'crcfun.c (content-dependent checksum standing in for CRC-32C where CRC arithmetic is not the subject; C18 decides CRC correctness)',
           'format.h extents re-stated in the harness']
OUTSIDE = ['error propagation only for the 8 listed reader functions and one failing read per call', 'whole-file statement "or a correct prefix after repair" (inherits the limits of C03)', 'payloads longer than the stated bound',
           'detection strength for codewords longer than 64 bytes rests on the published HD tables for 0x1EDC6F41']
EXPLANATION = ('O1: a fully symbolic chunk image (header, payload, padding, footer, symbolic file length and symbolic caller buffer size) is read through the real '
               'jls_raw_open/jls_raw_rd; success implies checksum equality over the format.h extents and byte-identical output; failures leave the caller header INVALID; '
               'symbolic 32-byte file header for jls_raw_open. O2: error propagation. O3: real CRC syndrome of sparse error patterns.')


def obligations(tier):
    o = []
    pm = 12 if tier == 'quick' else 24
    o.append(Obl('O1_raw_rd_chunk', 'c04_raw.c', units=['raw.c'], stubs=['log_stub.c', 'membk.c', 'crcfun.c'], defines=['MODE_RD=1', 'PMAX=%d' % pm, 'MEMBK_SIZE=256'],
                 unwind=pm + 50, timeout=900, backend=PORTFOLIO,
                 desc='jls_raw_rd on a symbolic chunk: accepted => header and payload checksums match over the documented bytes and output == file bytes',
                 bound='payload_length <= %d (+8), symbolic file length and caller buffer size' % pm))
    o.append(Obl('O1_raw_open_file_header', 'c04_raw.c', units=['raw.c'], stubs=['log_stub.c', 'membk.c', 'crcfun.c'], defines=['MODE_OPEN=1', 'MEMBK_SIZE=256'],
                 unwind=40, timeout=600, backend=PORTFOLIO,
                 desc='jls_raw_open("r") on a symbolic 32-byte file header: accepted => identification, checksum over bytes 0..27, major version',
                 bound='all 2^256 file headers, file length 0..40'))
    names = {1: 'jls_core_rd_fsr_level1', 2: 'jls_core_scan_fsr_sample_id', 3: 'jls_core_rd_fsr_data0', 4: 'jls_core_fsr_length', 5: 'jls_core_annotations',
             6: 'jls_core_utc', 7: 'jls_core_user_data', 8: 'jls_core_scan_sources'}
    for e, fn in names.items():
        if e in (3, 5, 6, 7, 8):
            continue      # data0, the annotation/UTC/user-data iterators and scan_sources: no verdict (11-12 GB or symex > 300 s); not claimed
        o.append(Obl('O2_errprop_%s' % fn, 'c04_errprop.c', units=['core.c', 'reader.c', 'buffer.c'],
                     defines=['JLS_VERIF_SIGNAL_COUNT=2', 'JLS_VERIF_SOURCE_COUNT=2', 'JLS_VERIF_FSR_BUFFER_U64=2', 'JLS_VERIF_BUF_DEFAULT_SIZE=160', 'JLS_VERIF_BUF_STRING_SIZE=32',
                              'JLS_VERIF_F64_BUF_LENGTH_MIN=16', 'ENTRY=%d' % e],
                     unwind=18, unwind_text=[('feed', r'SYM_BYTES', 66), ('jls_core_rd_chunk', r'while \(1\)', 3), ('jls_core_annotations', r'while \(pos\)', 5),
                                             ('jls_core_utc', r'while \(hdr.item_next\)', 5), ('jls_core_user_data', r'while \(pos\)', 5), ('jls_core_scan_sources', r'while \(1\)', 4),
                                             ('jls_buf_rd_str', r'while \(self->cur != self->end\)', 50), ('jls_core_utc', r'for \(', 4)], typed_calloc=True, timeout=600, backend=PORTFOLIO, objbits=10,
                     desc='%s over a chunk feeder: the read with a symbolic ordinal fails with MESSAGE_INTEGRITY => the call fails and no callback follows; without a fault the call succeeds' % fn,
                     bound='fault ordinal 0..5 (more reads than the call makes), payload bytes symbolic, structure of the fed chunks fixed',
                     assumes=['jls_raw_rd/jls_raw_rd_header replaced by a feeder; MESSAGE_INTEGRITY is what raw.c returns on a checksum mismatch (C04-O1)']))
    npay = 16 if tier == 'quick' else 64
    wmax = 2   # weight 3 was attempted (thorough, 6000 s per query, three back ends): no verdict -> stated as not decided
    for mode, extra, nm in (('HDR', ['WMAX=%d' % wmax], 'hdr_weight%d' % wmax), ('HDR', ['BURST=1'], 'hdr_burst32'), ('PAY', ['WMAX=%d' % wmax], 'payload_weight%d' % wmax), ('PAY', ['BURST=1'], 'payload_burst32')):
        np_ = npay
        if mode == 'PAY' and 'WMAX' in extra[0] and tier != 'quick':
            np_ = 24      # weight 2 over 64 payload bytes: no verdict in 64 min; 24 bytes is what returns
        ob = Obl('O3_strength_%s' % nm, 'c04_strength.c', units=[], defines=['MODE_%s=1' % mode, 'NPAY=%d' % np_] + extra,
                 unwind=max(66, np_ + 12), timeout=600 if tier == 'quick' else 2400, backend=PORTFOLIO,
                 desc='real checksum (sse4 unit + instruction model): %s' % nm,
                 bound='header codeword 256 bits (zero base word; linearity from C18)' if mode == 'HDR' else 'payload 1..%d bytes + 4 footer bytes, zero base word' % np_)
        ob.units_note = ['crc32c.c -> crc32c_intel_sse4.c (included into the harness TU)']
        o.append(ob)
    return o
