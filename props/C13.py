from vlib import Obl, PORTFOLIO

TITLE = 'Definitions and user data round-trip; identity rules are enforced'
LEVEL_TEXT = ('bounded symbolic verification of the real payload codec (buffer.c), definition writer/parser (writer.c, core.c) and user-data path at internal seams, '
              'with small buffer hooks so that growth and string-block chaining occur within the bound')
TRUSTED = ['cbmc 6.11', 'membk.c', 'crcfun.c', 'size hooks JLS_VERIF_BUF_DEFAULT_SIZE / JLS_VERIF_BUF_STRING_SIZE']
OUTSIDE = ['strings longer than the stated bound', 'numeric block parameters symbolic through the normaliser (C16 decides the normaliser; here they are concrete)', 'MiB-scale payloads as such (covered only through the shrunken buffers)', 'more than 2-3 definitions per query']
EXPLANATION = ('O1: string and field codecs (write then read) with symbolic content, NULL strings, buffer growth and string-block chaining. '
               'O4: jls_core_rd_chunk reads a chunk whose payload length is symbolic around the read-buffer size. O2/O3: definition round-trip and identity rules.')

H_SMALL = ['JLS_VERIF_BUF_DEFAULT_SIZE=8', 'JLS_VERIF_BUF_STRING_SIZE=10']


def obligations(tier):
    o = []
    o.append(Obl('O1_strings', 'c13_buf.c', units=['buffer.c'], defines=H_SMALL + ['MODE_STR=1', 'SLEN=6'], unwind=12, timeout=600, backend=PORTFOLIO,
                 desc='two strings (<=6 bytes, or NULL) jls_buf_wr_str -> jls_buf_rd_str; 8-byte buffer (growth) and 10-byte string blocks (chaining)',
                 bound='2 strings, <= 6 bytes each'))
    o.append(Obl('O1_fields', 'c13_buf.c', units=['buffer.c'], defines=H_SMALL + ['MODE_INTS=1'], unwind=14, timeout=600, backend=PORTFOLIO,
                 desc='u8/zero/u16/i64/u32/f32/bin writers then readers; 8-byte buffer so every writer can trigger growth',
                 bound='one field of each kind, zero run <= 12, binary <= 8 bytes'))
    o.append(Obl('O4_grow', 'c13_buf.c', units=['buffer.c'], defines=['JLS_VERIF_BUF_DEFAULT_SIZE=8', 'JLS_VERIF_BUF_STRING_SIZE=10', 'MODE_GROW=1', 'GROW_MAX=4096'],
                 unwind=14, timeout=600, backend=PORTFOLIO,
                 desc='jls_buf_realloc(symbolic size <= 4096) from an 8-byte buffer: terminates, proportionate, cursor/length/content preserved',
                 bound='request <= 4096 bytes'))
    pm = 24
    for plen in ([4, 13, 16, 24] if tier == 'quick' else [0, 4, 12, 13, 16, 17, 20, 24]):
        ob = (Obl('O4_rd_chunk_growth_len%d' % plen, 'c13_buf.c', units=['core.c', 'raw.c', 'buffer.c'], stubs=['log_stub.c', 'membk.c', 'crcfun.c'],
                     defines=['JLS_VERIF_BUF_DEFAULT_SIZE=16', 'JLS_VERIF_BUF_STRING_SIZE=10', 'JLS_VERIF_SIGNAL_COUNT=1', 'JLS_VERIF_SOURCE_COUNT=1', 'JLS_VERIF_FSR_BUFFER_U64=2',
                              'MODE_RDCHUNK=1', 'PMAX=%d' % pm, 'MEMBK_SIZE=160', 'FIXED_PLEN=%d' % plen],
                     unwind=pm + 14, timeout=600, backend=PORTFOLIO,
                     desc='jls_core_rd_chunk on a chunk with a %d-byte payload (symbolic bytes) and a 16-byte read buffer: terminates, payload unaltered' % plen,
                     bound='payload length %d (instances around the buffer size: fits / payload fits but footer does not / larger), read buffer 16 bytes (hook)' % plen))
        ob.unwind_text = [('jls_core_rd_chunk', r'while \(1\)', 4)]     # at most: TOO_BIG, grow, success (proved by the unwinding assertion)
        o.append(ob)
    # O2/O3: one definition / user-data item per instance over the chunk-store model of the raw layer (harness/c13_unit.c).
    # (The whole-file variants -- harness/c13_defs.c over the real raw layer, harness/c13_codec.c over the store model -- returned no verdict: props/_unclaimed_C13_defs.txt.)
    hd = ['JLS_VERIF_SIGNAL_COUNT=3', 'JLS_VERIF_SOURCE_COUNT=3', 'JLS_VERIF_BUF_DEFAULT_SIZE=256', 'JLS_VERIF_BUF_STRING_SIZE=96', 'JLS_VERIF_FSR_BUFFER_U64=2', 'ST_N=8', 'ST_PMAX=144']
    inst = []
    for vsr, dt, dtn in ((0, 'JLS_DATATYPE_I16', 'i16'), (1, 'JLS_DATATYPE_F32', 'f32')) + (((0, 'JLS_DATATYPE_U1', 'u1'), (0, 'JLS_DATATYPE_F64', 'f64'), (1, 'JLS_DATATYPE_U24', 'u24')) if tier != 'quick' else ()):
        inst.append(('O2_signal_def_roundtrip_%s_%s' % ('vsr' if vsr else 'fsr', dtn), ['MODE_SIGNAL=1', 'STYPE_VSR=%d' % vsr, 'DTYPE=%s' % dt],
                     'jls_wr_signal_def -> jls_core_scan_signals (%s, %s): annotation and UTC decimate factors (and for VSR the rate) symbolic; every accepted definition reads back field by field as stored '
                     '(each factor in its own field), ts tracks opened with their own factor, track heads attached' % ('VSR' if vsr else 'FSR', dtn),
                     'one signal (id 1, source 2); block parameters and the FSR rate (1000000) concrete (C16 decides the normaliser); strings fixed (name 2 / units 1 characters)'))
    inst += [
            ('O2_source_def_roundtrip', ['MODE_SOURCE=1'], 'jls_wr_source_def -> jls_core_scan_sources: strings fixed incl. one absent and one empty string', 'one source; strings of 3/1/2 characters, one NULL, one empty')]
    for c, cname, what in ((0, 'duplicate_source', 'a second definition of an existing source id'), (1, 'duplicate_signal', 'a second definition of an existing signal id'),
                           (2, 'undefined_source', 'a signal naming a source id that was never defined (symbolic, in range or not)'),
                           (3, 'data_for_undefined_signal', 'jls_wr_fsr on a signal id that was never defined (symbolic, in range or not)')):
        inst.append(('O3_identity_%s' % cname, ['MODE_IDENTITY=1', 'IDENT_CASE=%d' % c], what + ': error code; no chunk appended and no header or payload byte of the store changes',
                     'source 2 and FSR signal 1 defined before the rejected call'))
    for kind, kname, size, slen in ((1, 'binary', 5, 0), (1, 'binary', 0, 0), (2, 'string', 0, 3), (2, 'string', 7, 3), (3, 'json', 2, 5)):
        inst.append(('O2_user_data_%s_size%d_len%d' % (kname, size, slen), ['MODE_USERDATA=1', 'UD_KIND=%d' % kind, 'UD_SIZE=%d' % size, 'UD_STRLEN=%d' % slen],
                     'jls_wr_user_data(%s, passed size %d%s) -> jls_core_user_data: symbolic 16-bit tag%s; delivered once with 12-bit tag, type, size%s and bytes'
                     % (kname, size, '' if kind == 1 else ', text of %d characters' % slen, ' and bytes' if kind == 1 else '', '' if kind == 1 else ' strlen+1 whatever size was passed'),
                     'one item after the initial chunk'))
    for nm, modes, desc, bound in inst:
        o.append(Obl(nm, 'c13_unit.c', units=['core.c', 'track.c', 'writer.c', 'buffer.c', 'reader.c'],
                     defines=hd + modes, unwind=100, typed_calloc=True, flags=['--max-field-sensitivity-array-size', '2048'],
                     unwind_text=[('jls_core_scan_sources', r'while \(1\)', 3), ('jls_core_scan_signals', r'while \(1\)', 9),
                                  ('jls_core_user_data', r'while \(pos\)', 4), ('jls_core_rd_chunk', r'while \(1\)', 3), ('jls_buf_rd_str', r'while \(self->cur != self->end\)', 8),
                                  ('jls_buf_realloc', r'while \(alloc_size < size\)', 3)],
                     timeout=600, backend=PORTFOLIO, mem_gb=12, objbits=10, desc=desc, bound=bound,
                     assumes=['raw layer replaced by the chunk-store model rawstore.h (no checksums; C04/C18 decide those); wr_ts.c / wr_fsr.c not linked; '
                              'the list heads the reader takes from jls_core_scan_initial are handed over directly']))
    return o
