/* CBMC build only (force-included into the real units when an obligation asks for it).
 * Every calloc in jls is calloc(1, size).  CBMC models calloc as an untyped byte array, which makes symbolic execution of
 * field accesses through the object ~100x slower; malloc(sizeof(T)) yields a typed object.  Same semantics: a zero-filled
 * allocation of `size` bytes.  Part of the environment model (listed as trusted). */
#include <stdlib.h>
#include <string.h>
#define calloc(n, s) memset(malloc(s), 0, (s))
