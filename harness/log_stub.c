/* Environment model: logging has an empty body (arguments are still evaluated by callers). */
#include "jls/log.h"
char const * const jls_log_level_str[JLS_LOG_LEVEL_ALL + 1] = {
    "EMERGENCY", "ALERT", "CRITICAL", "ERROR", "WARNING", "NOTICE", "INFO", "DEBUG1", "DEBUG2", "DEBUG3", "ALL"};
char const jls_log_level_char[JLS_LOG_LEVEL_ALL + 1] = {'!', 'A', 'C', 'E', 'W', 'N', 'I', 'D', 'D', 'D', '.'};
void jls_log_printf(const char * format, ...) { (void) format; }
