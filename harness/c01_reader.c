/* C01-O2 (and the read part of C15-O2): the reader's copy kernel, real jls_core_fsr (src/core.c).
 * Seam: jls_core_rd_fsr_data0 (body removed).  Its contract, taken from the real function: load into self->buf the DATA
 * payload of the block that contains start_sample_id - header {timestamp = first id of the block, entry_count,
 * entry_size_bits} followed by the packed samples.  The stub serves blocks from a symbolic store of T samples
 * (<= NBLK blocks, last block short), first sample id = sample_id_offset (symbolic).
 * Window (start, len) symbolic inside the signal.  The output buffer has exactly the documented size and sits at the end
 * of its object: writing past it is a pointer failure.  One symbolic watched sample compares output and store bit for bit.
 */
#include "common.h"
#include "jls/core.h"
#include "jls/ec.h"

#ifndef BITS
#define BITS 4
#endif
#if BITS == 1
#define DT JLS_DATATYPE_U1
#ifndef BLOCK
#define BLOCK 16
#endif
#elif BITS == 4
#define DT JLS_DATATYPE_U4
#ifndef BLOCK
#define BLOCK 8
#endif
#elif BITS == 8
#define DT JLS_DATATYPE_U8
#ifndef BLOCK
#define BLOCK 4
#endif
#elif BITS == 16
#define DT JLS_DATATYPE_I16
#ifndef BLOCK
#define BLOCK 4
#endif
#elif BITS == 24
#define DT JLS_DATATYPE_U24
#ifndef BLOCK
#define BLOCK 2
#endif
#elif BITS == 32
#define DT JLS_DATATYPE_F32
#ifndef BLOCK
#define BLOCK 2
#endif
#elif BITS == 64
#define DT JLS_DATATYPE_F64
#ifndef BLOCK
#define BLOCK 2
#endif
#endif
#ifndef NBLK
#define NBLK 3
#endif
#define TMAX (NBLK * BLOCK)
#define BLKBYTES ((BLOCK * BITS) / 8)
#define STOREBYTES (NBLK * BLKBYTES)
#if BITS < 8
#define OUTBYTES(len) (1 + ((len) * BITS) / 8)           /* documented in reader.h */
#else
#define OUTBYTES(len) (((len) * BITS) / 8)
#endif
#define OUTMAX OUTBYTES(TMAX)

static struct jls_core_s core;
static struct jls_core_fsr_s fsr_obj;
static uint8_t store[STOREBYTES];
static int64_t first_id;          /* sample_id_offset */
static int64_t T;                 /* signal length */
static uint32_t n_loads;

int32_t jls_core_rd_fsr_data0(struct jls_core_s * self, uint16_t signal_id, int64_t start_sample_id) {
    CHECK(self == &core && signal_id == 1, "data read for the right signal");
    CHECK(start_sample_id >= first_id && start_sample_id < first_id + T, "reader never asks for a block outside the signal");
    ++n_loads;
    CHECK(n_loads <= NBLK + 2, "reader loads each block a bounded number of times (progress)");
    if (!(start_sample_id >= first_id && start_sample_id < first_id + T)) {
        return JLS_ERROR_NOT_FOUND;
    }
    int64_t k = (start_sample_id - first_id) / BLOCK;
    struct jls_fsr_data_s * r = (struct jls_fsr_data_s *) self->buf->start;
    r->header.timestamp = first_id + k * BLOCK;
    int64_t cnt = T - k * BLOCK;
    r->header.entry_count = (uint32_t) (cnt > BLOCK ? BLOCK : cnt);
    r->header.entry_size_bits = BITS;
    r->header.rsv16 = 0;
    uint8_t * d = (uint8_t *) r->data;
    for (unsigned i = 0; i < BLKBYTES; ++i) {
        d[i] = store[k * BLKBYTES + i];
    }
    self->buf->length = sizeof(struct jls_payload_header_s) + ((size_t) r->header.entry_count * BITS + 7) / 8;
    self->buf->cur = self->buf->start;
    self->buf->end = self->buf->start + self->buf->length;
    return 0;
}

static uint64_t get_sample(const uint8_t * p, uint32_t k) {
#if BITS == 1
    return (p[k >> 3] >> (k & 7)) & 1u;
#elif BITS == 4
    return (p[k >> 1] >> ((k & 1) * 4)) & 0xfu;
#else
    uint64_t v = 0;
    for (unsigned b = 0; b < BITS / 8; ++b) {
        v |= ((uint64_t) p[k * (BITS / 8) + b]) << (8 * b);
    }
    return v;
#endif
}

void harness(void) {
    struct jls_core_signal_s * sig = &core.signal_info[1];
    sig->parent = &core;
    sig->signal_def.signal_id = 1;
    sig->signal_def.signal_type = JLS_SIGNAL_TYPE_FSR;
    sig->signal_def.data_type = DT;
    sig->signal_def.sample_rate = 1000;
    sig->signal_def.samples_per_data = BLOCK;
    sig->signal_def.sample_decimate_factor = BLOCK;
    sig->signal_def.entries_per_summary = 10;
    sig->signal_def.summary_decimate_factor = 10;
    sig->chunk_def.offset = 64;
    sig->track_fsr = &fsr_obj;
    fsr_obj.parent = sig;
    core.buf = jls_buf_alloc();
    ASSUME(core.buf != NULL);

    SYM_I64(off);
    ASSUME(off > -((int64_t) 1 << 40) && off < ((int64_t) 1 << 40));
    first_id = off;
    sig->signal_def.sample_id_offset = off;
    SYM_U32(total);
    ASSUME(total >= 1 && total <= TMAX);
    T = total;
    fsr_obj.signal_length = T;               /* cached length (jls_core_fsr_length is decided separately) */
    SYM_BYTES(store, STOREBYTES, "store");

#ifdef MODE_MISUSE
    /* C10-O5: any 64-bit start/length that is not a window inside the signal: error code (or 0 for a non-positive length),
     * no block requested outside the signal, nothing written, termination */
    SYM_I64(start);
    SYM_I64(len);
    bool inside = (start >= 0) && (len >= 1) && (start <= (int64_t) total) && (len <= (int64_t) total - start);
    ASSUME(!inside);
    uint8_t * out = verif_malloc(1);
    out[0] = 0xEE;
    int32_t rc = jls_core_fsr(&core, 1, start, out, len);
    if (len <= 0) {
        CHECK(rc == 0 || rc == JLS_ERROR_PARAMETER_INVALID, "a non-positive length reads nothing");
    } else {
        CHECK(rc != 0, "a window that is not inside the signal is rejected with an error code");
    }
    CHECK(out[0] == 0xEE && n_loads == 0, "a rejected window touches neither the caller's buffer nor the file");
#else
    SYM_U32(start);
    SYM_U32(len);
    ASSUME(len >= 1 && (uint64_t) start + len <= total);
    uint8_t * obj = verif_malloc(OUTMAX + 1);
    memset(obj, 0xEE, OUTMAX + 1);
    uint32_t outbytes = OUTBYTES(len);
    uint8_t * out = obj + (OUTMAX + 1 - outbytes);       /* documented size, ends at the end of the object */
    int32_t rc = jls_core_fsr(&core, 1, start, out, len);
    CHECK(rc == 0, "a window inside the signal is read without error");
    SYM_U32(w);
    ASSUME(w < len);
    if (rc == 0) {
        uint64_t got = get_sample(out, w);
        uint64_t want = get_sample(store, start + w);
        CHECK(got == want, "sample read back equals the stored sample bit for bit");
    }
    CHECK(obj[0] == 0xEE || outbytes == OUTMAX + 1, "nothing written in front of the caller's buffer");
#endif
    WITNESS_END();
}
