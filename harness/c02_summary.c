/* C02-O1/O2: the per-level reductions of the writer (real jls_core_fsr_summary1 / jls_core_fsr_summaryN in src/wr_fsr.c,
 * jls_dt_buffer_to_f64 in src/datatype.c, jls_core_fsr_summary_level_alloc).  File-layer sinks (jls_core_wr_index/summary,
 * jls_raw_chunk_tell) are stubs; they are not reached within the bound (entries_per_summary is larger than what is produced).
 * MODE_L1 : one block of NE*SDF symbolic samples; each level-1 entry must hold min/max exactly (comparison only, any values,
 *           NaN/Inf skipped), all-non-finite -> NaN entry, index offset/timestamps as documented.  GRID: additionally mean and
 *           std bit-equal to the reference formula on a small value grid.
 * MODE_LN : NE*SUMDF symbolic level-1 entries reduced to level 2: min of mins / max of maxes over entries with a finite mean,
 *           NaN entry if none.
 */
#include "common.h"
#include "jls/core.h"
#include "jls/ec.h"
#include <math.h>
#include <float.h>

#ifndef BITS
#define BITS 32
#endif
#ifndef SDF
#define SDF 4
#endif
#ifndef NE
#define NE 2
#endif
#ifndef SUMDF
#define SUMDF 3
#endif
#define BLOCK (NE * SDF)

#if BITS == 1
#define DT JLS_DATATYPE_U1
#elif BITS == 4
#ifdef SIGNED_T
#define DT JLS_DATATYPE_I4
#else
#define DT JLS_DATATYPE_U4
#endif
#elif BITS == 8
#ifdef SIGNED_T
#define DT JLS_DATATYPE_I8
#else
#define DT JLS_DATATYPE_U8
#endif
#elif BITS == 16
#ifdef SIGNED_T
#define DT JLS_DATATYPE_I16
#else
#define DT JLS_DATATYPE_U16
#endif
#elif BITS == 32
#ifdef INT_T
#define DT JLS_DATATYPE_I32
#define SUM64 1
#else
#define DT JLS_DATATYPE_F32
#endif
#elif BITS == 64
#define DT JLS_DATATYPE_F64
#define SUM64 1
#endif

static struct jls_core_s core;
static int sink_calls;

int64_t jls_raw_chunk_tell(struct jls_raw_s * self) { (void) self; return 4096; }
int32_t jls_core_wr_index(struct jls_core_s * self, uint16_t signal_id, enum jls_track_type_e t, uint8_t level, const uint8_t * p, uint32_t n) {
    (void) self; (void) signal_id; (void) t; (void) level; (void) p; (void) n; ++sink_calls; return 0;
}
int32_t jls_core_wr_summary(struct jls_core_s * self, uint16_t signal_id, enum jls_track_type_e t, uint8_t level, const uint8_t * p, uint32_t n) {
    (void) self; (void) signal_id; (void) t; (void) level; (void) p; (void) n; ++sink_calls; return 0;
}
int32_t jls_core_wr_data(struct jls_core_s * self, uint16_t signal_id, enum jls_track_type_e t, const uint8_t * p, uint32_t n) {
    (void) self; (void) signal_id; (void) t; (void) p; (void) n; ++sink_calls; return 0;
}

/* independent conversion of sample k of the packed block to double (from format.h data type definitions) */
static double sample_to_f64(const uint8_t * p, uint32_t k) {
#if BITS == 1
    return (double) ((p[k >> 3] >> (k & 7)) & 1u);
#elif BITS == 4
    uint8_t v = (p[k >> 1] >> ((k & 1) * 4)) & 0xfu;
#ifdef SIGNED_T
    return (double) ((v & 8) ? ((int) v - 16) : (int) v);
#else
    return (double) v;
#endif
#elif BITS == 8
#ifdef SIGNED_T
    return (double) (int8_t) p[k];
#else
    return (double) p[k];
#endif
#elif BITS == 16
    uint16_t v = (uint16_t) (p[2 * k] | (p[2 * k + 1] << 8));
#ifdef SIGNED_T
    return (double) (int16_t) v;
#else
    return (double) v;
#endif
#elif BITS == 32
    uint32_t v = ((uint32_t) p[4 * k]) | (((uint32_t) p[4 * k + 1]) << 8) | (((uint32_t) p[4 * k + 2]) << 16) | (((uint32_t) p[4 * k + 3]) << 24);
#ifdef INT_T
    return (double) (int32_t) v;
#else
    return (double) verif_f32_from_bits(v);
#endif
#else
    uint64_t v = 0;
    for (unsigned b = 0; b < 8; ++b) { v |= ((uint64_t) p[8 * k + b]) << (8 * b); }
    return verif_f64_from_bits(v);
#endif
}

static double entry_get(struct jls_core_fsr_level_s * lvl, uint32_t e, int field) {
#ifdef SUM64
    return ((double *) lvl->summary->data)[e * JLS_SUMMARY_FSR_COUNT + field];
#else
    return (double) ((float *) lvl->summary->data)[e * JLS_SUMMARY_FSR_COUNT + field];
#endif
}

static double as_stored(double v) {
#ifdef SUM64
    return v;
#else
    return (double) (float) v;
#endif
}

void harness(void) {
    struct jls_core_signal_s * sig = &core.signal_info[1];
    sig->parent = &core;
    sig->signal_def.signal_id = 1;
    sig->signal_def.signal_type = JLS_SIGNAL_TYPE_FSR;
    sig->signal_def.data_type = DT;
    sig->signal_def.sample_rate = 1000;
    sig->signal_def.samples_per_data = BLOCK;
    sig->signal_def.sample_decimate_factor = SDF;
    sig->signal_def.entries_per_summary = 4 * NE * SUMDF;
    sig->signal_def.summary_decimate_factor = SUMDF;
    sig->chunk_def.offset = 64;
    struct jls_core_fsr_s * fsr = NULL;
    ASSUME(0 == jls_fsr_open(&fsr, sig) && fsr != NULL);
    sig->track_fsr = fsr;
    SYM_I64(ts);
    ASSUME(ts > -((int64_t) 1 << 40) && ts < ((int64_t) 1 << 40));
    SYM_I64(pos);
    SYM_U32(w);                           /* watched entry */
    ASSUME(w < NE);
#if defined(MODE_L1)
    ASSUME(0 == jls_core_fsr_sample_buffer_alloc(fsr));
    uint8_t * d = (uint8_t *) fsr->data->data;
#ifdef GRID
    for (unsigned i = 0; i < BLOCK; ++i) {
        static const float tiny[8] = {-2.0f, -1.0f, 0.0f, 1.0f, 3.0f, 7.5f, -5.0f, 0.25f};
        uint8_t ti;
        SYM_SET(uint8_t, ti, "grid_idx");
        ASSUME(ti < 8);
        float f = tiny[ti];
        memcpy(d + 4 * i, &f, 4);
    }
#elif defined(TWO_CALLS)
    for (unsigned i = 0; i < (BLOCK * BITS) / 8; ++i) { d[i] = (uint8_t) (i * 37 + 11); }     /* bookkeeping obligation: sample values are not its subject */
#else
    SYM_BYTES(d, (BLOCK * BITS) / 8, "samples");
#endif
    fsr->data->header.timestamp = ts;
    fsr->data->header.entry_count = BLOCK;
    int32_t rc = jls_core_fsr_summary1(fsr, pos);
    CHECK(rc == 0, "summary1 succeeds");
    struct jls_core_fsr_level_s * l1 = fsr->level[1];
    CHECK(l1 != NULL, "level 1 allocated");
    ASSUME(l1 != NULL);
    CHECK(l1->summary->header.entry_count == NE && l1->index->header.entry_count == 1, "one index entry and NE summary entries per block");
    CHECK(l1->index->offsets[0] == (uint64_t) pos, "index entry is the position of the data chunk (0 = omitted)");
    CHECK(l1->index->header.timestamp == ts && l1->summary->header.timestamp == ts, "index and summary carry the first sample id of the block");
#ifdef SUM64
    CHECK(l1->summary->header.entry_size_bits == 4 * 64, "64-bit summary entries for this type");
#else
    CHECK(l1->summary->header.entry_size_bits == 4 * 32, "32-bit summary entries for this type");
#endif
    /* reference over the samples of the watched entry */
    uint32_t count = 0;
    double rmin = DBL_MAX, rmax = -DBL_MAX, sum = 0.0;
    for (unsigned i = 0; i < SDF; ++i) {
        double v = sample_to_f64(d, w * SDF + i);
        if (isfinite(v)) {
            ++count;
            sum += v;
            if (v < rmin) { rmin = v; }
            if (v > rmax) { rmax = v; }
        }
    }
    double g_mean = entry_get(l1, w, JLS_SUMMARY_FSR_MEAN), g_std = entry_get(l1, w, JLS_SUMMARY_FSR_STD);
    double g_min = entry_get(l1, w, JLS_SUMMARY_FSR_MIN), g_max = entry_get(l1, w, JLS_SUMMARY_FSR_MAX);
    if (count == 0) {
        CHECK(isnan(g_mean) && isnan(g_min) && isnan(g_max) && isnan(g_std), "an entry without finite samples is NaN");
    } else {
        CHECK(g_min == as_stored(rmin), "entry minimum is the exact minimum of its finite samples");
        CHECK(g_max == as_stored(rmax), "entry maximum is the exact maximum of its finite samples");
        CHECK(!isnan(g_mean) && !isnan(g_std), "entry with finite samples has a mean and std");
        CHECK(g_std >= 0.0, "std is not negative");
#ifdef GRID
        double mean = sum / count;
        double var = 0.0;
        for (unsigned i = 0; i < SDF; ++i) {
            double v = sample_to_f64(d, w * SDF + i);
            if (isfinite(v)) { v -= mean; var += v * v; }
        }
        var = (count == 1) ? 0.0 : var / count;
        CHECK(g_mean == as_stored(mean), "entry mean = in-order sum / count of the finite samples");
        CHECK(g_std == as_stored(sqrt(var)), "entry std = sqrt of the population variance about that mean");
#endif
    }
#ifdef TWO_CALLS
    {   /* a second block into the same level-1 chunk: the chunk keeps the first block's sample id, the index gets a second entry */
        SYM_I64(ts2); SYM_I64(pos2);
        ASSUME(ts2 > ts && ts2 < ((int64_t) 1 << 41));
        fsr->data->header.timestamp = ts2;
        fsr->data->header.entry_count = BLOCK;
        CHECK(0 == jls_core_fsr_summary1(fsr, pos2), "second summary1 succeeds");
        CHECK(l1->summary->header.entry_count == 2 * NE && l1->index->header.entry_count == 2, "two index entries and 2*NE summary entries after two blocks");
        CHECK(l1->index->offsets[0] == (uint64_t) pos && l1->index->offsets[1] == (uint64_t) pos2, "index entries in block order");
        CHECK(l1->index->header.timestamp == ts && l1->summary->header.timestamp == ts, "the chunk's sample id stays that of its first block");
        /* the level-1 chunk is written out (wr_summary empties the level) and filled again */
        SYM_I64(ts3); SYM_I64(pos3);
        ASSUME(ts3 > ts2 && ts3 < ((int64_t) 1 << 42));
        l1->index->header.entry_count = 0;
        l1->summary->header.entry_count = 0;
        fsr->data->header.timestamp = ts3;
        fsr->data->header.entry_count = BLOCK;
        CHECK(0 == jls_core_fsr_summary1(fsr, pos3), "summary1 into the emptied level succeeds");
        CHECK(l1->summary->header.entry_count == NE && l1->index->header.entry_count == 1 && l1->index->offsets[0] == (uint64_t) pos3, "the emptied level starts a new chunk");
        CHECK(l1->index->header.timestamp == ts3 && l1->summary->header.timestamp == ts3, "a new level-1 chunk carries the sample id of ITS first block");
    }
#endif
#elif defined(MODE_LN)
    ASSUME(0 == jls_core_fsr_summary_level_alloc(fsr, 1));
    struct jls_core_fsr_level_s * l1 = fsr->level[1];
    l1->summary->header.entry_count = NE * SUMDF;
    l1->summary->header.timestamp = ts;
    l1->index->header.timestamp = ts;
    l1->index->header.entry_count = 1;
    for (unsigned i = 0; i < NE * SUMDF * JLS_SUMMARY_FSR_COUNT; ++i) {
#ifdef SUM64
        uint64_t bits;
        SYM_SET(uint64_t, bits, "l1_entry_bits");
        ((double *) l1->summary->data)[i] = verif_f64_from_bits(bits);
#else
        uint32_t bits;
        SYM_SET(uint32_t, bits, "l1_entry_bits");
        ((float *) l1->summary->data)[i] = verif_f32_from_bits(bits);
#endif
    }
    int32_t rc = jls_core_fsr_summaryN(fsr, 2, pos);
    CHECK(rc == 0, "summaryN succeeds");
    struct jls_core_fsr_level_s * l2 = fsr->level[2];
    CHECK(l2 != NULL, "level 2 allocated");
    ASSUME(l2 != NULL);
    CHECK(l2->summary->header.entry_count == NE && l2->index->header.entry_count == 1, "NE level-2 entries, one index entry");
    CHECK(l2->index->offsets[0] == (uint64_t) pos, "level-2 index entry is the position of the level-1 index chunk");
    CHECK(l2->index->header.timestamp == ts && l2->summary->header.timestamp == ts, "level-2 timestamps are those of the first level-1 entry");
    uint32_t count = 0;
    double rmin = DBL_MAX, rmax = -DBL_MAX;
    for (unsigned i = 0; i < SUMDF; ++i) {
        uint32_t e = w * SUMDF + i;
        double m = entry_get(l1, e, JLS_SUMMARY_FSR_MEAN);
        if (isfinite(m)) {
            ++count;
            double mn = entry_get(l1, e, JLS_SUMMARY_FSR_MIN), mx = entry_get(l1, e, JLS_SUMMARY_FSR_MAX);
            if (mn < rmin) { rmin = mn; }
            if (mx > rmax) { rmax = mx; }
        }
    }
    double g_mean = entry_get(l2, w, JLS_SUMMARY_FSR_MEAN);
    double g_min = entry_get(l2, w, JLS_SUMMARY_FSR_MIN), g_max = entry_get(l2, w, JLS_SUMMARY_FSR_MAX);
    if (count == 0) {
        CHECK(isnan(g_mean) && isnan(g_min) && isnan(g_max), "a level-N entry without finite inputs is NaN");
    } else {
        CHECK(g_min == as_stored(rmin) || (isnan(g_min) && rmin == DBL_MAX), "level-N minimum is the minimum of the input minima (finite-mean entries)");
        CHECK(g_max == as_stored(rmax) || (isnan(g_max) && rmax == -DBL_MAX), "level-N maximum is the maximum of the input maxima (finite-mean entries)");
    }
#ifdef TWO_CALLS
    {   /* a second level-1 chunk reduced into the same level-2 chunk */
        SYM_I64(ts2); SYM_I64(pos2);
        ASSUME(ts2 > ts && ts2 < ((int64_t) 1 << 41));
        l1->summary->header.entry_count = NE * SUMDF;       /* same entries again, later sample id (the caller, wr_summary, resets the source level after the reduction) */
        l1->summary->header.timestamp = ts2;
        l1->index->header.timestamp = ts2;
        l1->index->header.entry_count = 1;
        CHECK(0 == jls_core_fsr_summaryN(fsr, 2, pos2), "second summaryN succeeds");
        CHECK(l2->summary->header.entry_count == 2 * NE && l2->index->header.entry_count == 2, "two index entries and 2*NE entries after two source chunks");
        CHECK(l2->index->offsets[0] == (uint64_t) pos && l2->index->offsets[1] == (uint64_t) pos2, "index entries in source order");
        CHECK(l2->index->header.timestamp == ts && l2->summary->header.timestamp == ts, "the level-2 chunk's sample id stays that of its first source chunk");
        /* the level-2 chunk is written out (wr_summary empties the level: both entry counts = 0, wr_fsr.c) and filled again */
        SYM_I64(ts3); SYM_I64(pos3);
        ASSUME(ts3 > ts2 && ts3 < ((int64_t) 1 << 42));
        l2->index->header.entry_count = 0;
        l2->summary->header.entry_count = 0;
        l1->summary->header.entry_count = NE * SUMDF;
        l1->summary->header.timestamp = ts3;
        l1->index->header.timestamp = ts3;
        l1->index->header.entry_count = 1;
        CHECK(0 == jls_core_fsr_summaryN(fsr, 2, pos3), "summaryN into the emptied level succeeds");
        CHECK(l2->summary->header.entry_count == NE && l2->index->header.entry_count == 1 && l2->index->offsets[0] == (uint64_t) pos3, "the emptied level starts a new chunk");
        CHECK(l2->index->header.timestamp == ts3 && l2->summary->header.timestamp == ts3, "a new level-2 chunk carries the sample id of ITS first source chunk");
    }
#endif
#else
#error "no MODE"
#endif
    CHECK(sink_calls == 0, "no chunk is written before a summary chunk is full");
    WITNESS_END();
}
