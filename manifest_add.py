import json,sys
def add(pid, text, note, technique, design_ref):
    m=json.load(open('/verif/MANIFEST.json'))
    m['checks']=[c for c in m['checks'] if c['property_id']!=pid]
    m['checks'].append({"property_id":pid,"quick_cmd":"python3 run.py %s --tier quick"%pid,"thorough_cmd":"python3 run.py %s --tier thorough"%pid,
      "evidence_file":"/verif/evidence/%s.json"%pid,"replay_cmd_template":"python3 run.py --replay {path}","engine":"cbmc",
      "level_claimed":{"category":"other","text":text,"design_ref":design_ref},"level_note":note,"technique":technique})
    m['checks'].sort(key=lambda c:c['property_id'])
    m['not_applicable']=[n for n in m['not_applicable'] if n['property_id']!=pid]
    for e in m['engines']:
        if pid not in e['serves_properties']: e['serves_properties'].append(pid); e['serves_properties'].sort()
    json.dump(m,open('/verif/MANIFEST.json','w'),indent=1)
if __name__=='__main__':
    add(*sys.argv[1:6])
