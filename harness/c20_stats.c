/* C20: statistics accumulators (real src/statistics.c).
 * MODE_KMM   : count/min/max agree EXACTLY across compute_f64, add-one-at-a-time, combine of any split (fresh target,
 *              target aliasing a, target aliasing b), compute_f32; samples are arbitrary finite doubles / floats.
 * MODE_GRID  : samples on the int8 grid (the full input domain of u1/u4/i4/u8/i8 signals): s >= 0 and min <= mean <= max on
 *              every route; mean and s of all routes agree within a stated floating-point tolerance; aliasing routes included.
 * MODE_EMPTY : combine with an empty accumulator is the bitwise identity, also when the target aliases an operand.
 */
#include "common.h"
#include "jls/statistics.h"
#include <math.h>
#include <float.h>

#ifndef NMAX
#define NMAX 4
#endif

static bool same_bits(const struct jls_statistics_s * x, const struct jls_statistics_s * y) {
    return (x->k == y->k) && (verif_f64_bits(x->mean) == verif_f64_bits(y->mean)) && (verif_f64_bits(x->s) == verif_f64_bits(y->s))
        && (verif_f64_bits(x->min) == verif_f64_bits(y->min)) && (verif_f64_bits(x->max) == verif_f64_bits(y->max));
}

#if defined(MODE_KMM) || defined(MODE_GRID)
static double x[NMAX];
static float xf[NMAX];

static void routes(uint32_t n, uint32_t sp, struct jls_statistics_s * whole, struct jls_statistics_s * inc,
                   struct jls_statistics_s * fresh, struct jls_statistics_s * al_a, struct jls_statistics_s * al_b,
                   struct jls_statistics_s * f32) {
    struct jls_statistics_s a, b;
    jls_statistics_compute_f64(whole, x, n);
    jls_statistics_reset(inc);
    for (uint32_t i = 0; i < NMAX; ++i) {
        if (i < n) {
            jls_statistics_add(inc, x[i]);
        }
    }
    jls_statistics_compute_f64(&a, x, sp);
    jls_statistics_compute_f64(&b, x + sp, n - sp);
    jls_statistics_combine(fresh, &a, &b);
    *al_a = a;
    jls_statistics_combine(al_a, al_a, &b);
    *al_b = b;
    jls_statistics_combine(al_b, &a, al_b);
    jls_statistics_compute_f32(f32, xf, n);
}
#endif

void harness(void) {
#if defined(MODE_KMM)
    SYM_U32(n);
    SYM_U32(sp);
    ASSUME(n >= 1 && n <= NMAX && sp <= n);
    for (uint32_t i = 0; i < NMAX; ++i) {
        uint32_t fb;
        SYM_SET(uint32_t, fb, "xf_bits");
        xf[i] = verif_f32_from_bits(fb);
        ASSUME(!isnan(xf[i]) && !isinf(xf[i]));
#ifdef KMM_F64
        uint64_t db;
        SYM_SET(uint64_t, db, "x_bits");
        x[i] = verif_f64_from_bits(db);
        ASSUME(!isnan(x[i]) && !isinf(x[i]));
#else
        x[i] = (double) xf[i];
#endif
    }
    struct jls_statistics_s whole, inc, fresh, al_a, al_b, f32;
    routes(n, sp, &whole, &inc, &fresh, &al_a, &al_b, &f32);
    CHECK(whole.k == n && inc.k == n && fresh.k == n && al_a.k == n && al_b.k == n, "count equal on every route");
    CHECK(whole.min == inc.min && whole.max == inc.max, "min/max: compute == add-one-at-a-time");
    CHECK(whole.min == fresh.min && whole.max == fresh.max, "min/max: compute == combine of the split");
    CHECK(whole.min == al_a.min && whole.max == al_a.max, "min/max: combine with target aliasing a");
    CHECK(whole.min == al_b.min && whole.max == al_b.max, "min/max: combine with target aliasing b");
#ifndef KMM_F64
    CHECK(f32.k == n && f32.min == whole.min && f32.max == whole.max, "count/min/max: compute_f32 == compute_f64");
#endif
#elif defined(MODE_GRID)
    SYM_U32(n);
    SYM_U32(sp);
    ASSUME(n >= 1 && n <= NMAX && sp <= n);
    for (uint32_t i = 0; i < NMAX; ++i) {
#ifdef TINY_GRID
        static const int8_t tiny[8] = {-2, -1, 0, 1, 3, 7, -5, 2};
        uint8_t ti;
        SYM_SET(uint8_t, ti, "x_tiny_idx");
        ASSUME(ti < 8);
        int8_t v = tiny[ti];
#else
        int8_t v;
        SYM_SET(int8_t, v, "x_i8");
#endif
        x[i] = (double) v;
        xf[i] = (float) v;
    }
    const double tol_mean = 1e-9;    /* values <= 128, N <= 6: rounding differences are ~1e-14 */
    const double tol_s = 1e-6;       /* s <= 6 * 255^2 */
    struct jls_statistics_s whole, other, a, b;
    jls_statistics_compute_f64(&whole, x, n);
#if defined(G_ADD)
    jls_statistics_reset(&other);
    for (uint32_t i = 0; i < NMAX; ++i) {
        if (i < n) {
            jls_statistics_add(&other, x[i]);
        }
    }
#elif defined(G_COMBINE)
    jls_statistics_compute_f64(&a, x, sp);
    jls_statistics_compute_f64(&b, x + sp, n - sp);
    jls_statistics_combine(&other, &a, &b);
#elif defined(G_F32)
    jls_statistics_compute_f32(&other, xf, n);
#elif defined(G_ALIAS)
    struct jls_statistics_s al_a, al_b;
    jls_statistics_compute_f64(&a, x, sp);
    jls_statistics_compute_f64(&b, x + sp, n - sp);
    jls_statistics_combine(&other, &a, &b);
    al_a = a;
    jls_statistics_combine(&al_a, &al_a, &b);
    al_b = b;
    jls_statistics_combine(&al_b, &a, &al_b);
    CHECK(same_bits(&other, &al_a), "combine: result may overwrite operand a (bit-identical to a fresh target)");
    CHECK(same_bits(&other, &al_b), "combine: result may overwrite operand b (bit-identical to a fresh target)");
#else
#error "no G_ route"
#endif
    CHECK(whole.k == n && other.k == n, "count equal on both routes");
    CHECK(whole.s >= 0.0 && other.s >= 0.0, "scaled variance s is never negative");
    CHECK(jls_statistics_var(&whole) >= 0.0 && jls_statistics_var(&other) >= 0.0, "variance is never negative");
    CHECK(whole.min <= whole.mean + tol_mean && whole.mean <= whole.max + tol_mean, "min <= mean <= max (compute)");
    CHECK(other.min <= other.mean + tol_mean && other.mean <= other.max + tol_mean, "min <= mean <= max (other route)");
    CHECK(other.min == whole.min && other.max == whole.max, "min/max exact on both routes");
    CHECK(fabs(other.mean - whole.mean) <= tol_mean, "mean agrees across routes up to floating-point rounding");
    CHECK(fabs(other.s - whole.s) <= tol_s, "scaled variance agrees across routes up to floating-point rounding");
#elif defined(MODE_EMPTY)
    struct jls_statistics_s a, e, t1, t2;
    SYM_U64(k);
    SYM_U64(mb);
    SYM_U64(sb);
    SYM_U64(mnb);
    SYM_U64(mxb);
    ASSUME(k >= 1);
    a.k = k; a.mean = verif_f64_from_bits(mb); a.s = verif_f64_from_bits(sb);
    a.min = verif_f64_from_bits(mnb); a.max = verif_f64_from_bits(mxb);
    jls_statistics_reset(&e);
    jls_statistics_combine(&t1, &a, &e);
    CHECK(same_bits(&t1, &a), "combine(a, empty) is the identity");
    jls_statistics_combine(&t2, &e, &a);
    CHECK(same_bits(&t2, &a), "combine(empty, a) is the identity");
    t1 = a;
    jls_statistics_combine(&t1, &t1, &e);
    CHECK(same_bits(&t1, &a), "combine(tgt=a, a, empty) is the identity");
    t2 = e;
    jls_statistics_combine(&t2, &a, &t2);
    CHECK(same_bits(&t2, &a), "combine(tgt=b, a, empty=b) is the identity");
    t2 = e;
    jls_statistics_combine(&t2, &t2, &a);
    CHECK(same_bits(&t2, &a), "combine(tgt=a, empty=a, b) is the identity");
    struct jls_statistics_s e2;
    jls_statistics_reset(&e2);
    jls_statistics_combine(&t1, &e, &e2);
    CHECK(t1.k == 0 && t1.mean == 0.0 && t1.s == 0.0, "combine(empty, empty) is empty");
    jls_statistics_compute_f64(&t1, (const double *) &a, 0);
    CHECK(t1.k == 0, "compute over zero samples is empty");
#else
#error "no MODE"
#endif
    WITNESS_END();
}
