from vlib import Obl, PORTFOLIO

TITLE = 'Message queue is a faithful bounded FIFO that never leaves its buffer'
LEVEL_TEXT = ('bounded symbolic verification of the real msg_ring_buffer.c: all operation sequences of length K from init and one '
              'inductive step from any layout-valid state, capacities in a stated range')
TRUSTED = ['cbmc 6.11 (goto-cc front end, symex, SAT back end)', 'harness shadow FIFO (harness/c08_hist.c, c08_step.c)',
           'log_stub.c: jls_log_printf has an empty body']
OUTSIDE = ['capacities outside [16,64] (the code has no capacity-dependent branches other than comparisons, but this is not proved)',
           'histories longer than K from init are covered only through the inductive step, which is limited to <= 4 live messages',
           'concurrent use (see C06/C07, not applicable)']
EXPLANATION = ('Every query runs the real jls_mrb_init/alloc/peek/pop symbolically. O1: K symbolic operations with symbolic sizes on a queue '
               'of symbolic capacity, shadow FIFO oracle (order, size, bytes, disjointness incl. headers, inside the exactly-sized buffer object, '
               'failed alloc leaves state unchanged, alloc fails only if no contiguous region of size+12 exists, emptied queue accepts size<=cap-12). '
               'O2: one operation from an arbitrary state generated from the documented layout (<=4 live messages, optional wrap), same postconditions '
               'plus re-establishment of the layout invariant. Verdicts are SAT results over all values within the bounds; the in-harness witness '
               'assertion must fail (non-vacuity).')


def obligations(tier):
    o = []
    if tier == 'quick':
        lad = [('K5_cap16-40', ['K=5', 'CAP_MIN=16', 'CAP_MAX=40'], None, None), ('K4_cap16-32', ['K=4', 'CAP_MIN=16', 'CAP_MAX=32'], None, None)]
        to = 240
    else:
        lad = [('K8_cap16-64', ['K=8', 'CAP_MIN=16', 'CAP_MAX=64'], None, None), ('K6_cap16-64', ['K=6', 'CAP_MIN=16', 'CAP_MAX=64'], None, None),
               ('K5_cap16-40', ['K=5', 'CAP_MIN=16', 'CAP_MAX=40'], None, None)]
        to = 1500
    o.append(Obl('O1_histories', 'c08_hist.c', units=['msg_ring_buffer.c'], unwind=10, ladder=lad, timeout=to, backend=PORTFOLIO,
                 desc='all K-step alloc/peek/pop histories from jls_mrb_init against a shadow FIFO',
                 bound='capacity and K per rung label; sizes 0..cap+8',
                 assumes=['capacity within [CAP_MIN,CAP_MAX]', 'op in {alloc,peek,pop}', 'size <= CAP_MAX+8']))
    if tier == 'quick':
        lad2 = [('M3_cap16-64', ['MAXM=3', 'CAP_MIN=16', 'CAP_MAX=64'], None, None), ('M2_cap16-32', ['MAXM=2', 'CAP_MIN=16', 'CAP_MAX=32'], None, None)]
    else:
        lad2 = [('M5_cap16-96', ['MAXM=5', 'CAP_MIN=16', 'CAP_MAX=96'], None, None), ('M4_cap16-64', ['MAXM=4', 'CAP_MIN=16', 'CAP_MAX=64'], None, None)]
    o.append(Obl('O2_inductive_step', 'c08_step.c', units=['msg_ring_buffer.c'], unwind=8, ladder=lad2, timeout=to,
                 backend=PORTFOLIO,
                 desc='one alloc/peek/pop from an arbitrary state satisfying the layout invariant Inv_mrb; postconditions + Inv_mrb re-established',
                 bound='capacity range and max live messages per rung label',
                 assumes=['pre-state generated from Inv_mrb (see harness header)', 'size <= CAP_MAX+8']))
    return o
