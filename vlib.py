#!/usr/bin/env python3
"""Engine shared by all property checks: build the real jls units with goto-cc from /repo's
current working tree, cut seams, run CBMC under a stated bound, parse verdicts, replay
counterexamples natively (gcc + ASan/UBSan) against the real sources, write evidence."""
import concurrent.futures as cf
import json
import os
import re
import resource
import shutil
import signal
import subprocess
import sys
import threading
import time

REPO = os.environ.get('VERIF_REPO', '/repo')
VERIF = os.path.dirname(os.path.abspath(__file__))
BUILD = os.environ.get('VERIF_BUILD', os.path.join(VERIF, 'build'))
HARNESS = os.path.join(VERIF, 'harness')
EVIDENCE = os.environ.get('VERIF_EVIDENCE', os.path.join(VERIF, 'evidence'))
REPLAYDIR = os.environ.get('VERIF_REPLAYDIR', os.path.join(VERIF, 'replay'))
KNOWN_FINDINGS = os.path.join(VERIF, 'known_findings.txt')
TIMEOUT_SCALE = float(os.environ.get('VERIF_TIMEOUT_SCALE', '1.0'))
JOBS = int(os.environ.get('VERIF_JOBS', str(max(2, (os.cpu_count() or 4) - 2))))

INCLUDES = ['-I' + os.path.join(REPO, 'include'), '-I' + os.path.join(REPO, 'include_prv'), '-I' + os.path.join(REPO, 'src'), '-I' + HARNESS]
BASE_DEFS = ['-DJLS_VERIF=1']

CBMC_FLAGS = [
    '--unwinding-assertions', '--undefined-shift-check',
    '--signed-overflow-check', '--div-by-zero-check', '--drop-unused-functions',
    '--no-malloc-may-fail', '--json-ui', '--verbosity', '8',
]

_print_lock = threading.Lock()


def log(*a):
    with _print_lock:
        print(*a, flush=True)


class Obl:
    """One proof obligation = one CBMC query (plus its in-harness reachability witness)."""

    def __init__(self, name, harness, units=(), stubs=('log_stub.c',), defines=(), seams=None,
                 unwind=None, unwindset=(), flags=(), timeout=300, ladder=None, desc='',
                 bound='', assumes=(), tiers=('quick', 'thorough'), function='harness',
                 mem_gb=12, backend=None, expect_known=None, weight=1, native_defs=(), objbits=None, unwind_text=(), typed_calloc=False):
        self.name = name
        self.harness = harness            # file under /verif/harness
        self.units = list(units)          # files under /repo/src (the real code that is encoded)
        self.stubs = list(stubs)          # files under /verif/harness (environment model)
        self.defines = list(defines)      # -D for every TU
        self.seams = seams or {}          # unit -> [function bodies removed, replaced by harness stubs]
        self.unwind = unwind
        self.unwindset = list(unwindset)
        self.flags = list(flags)
        self.timeout = timeout
        # ladder: list of (label, extra_defines, extra_unwindset or None, unwind or None); first = largest bound
        self.ladder = ladder or [('default', [], None, None)]
        self.desc = desc
        self.bound = bound
        self.assumes = list(assumes)
        self.tiers = tiers
        self.function = function
        self.mem_gb = mem_gb
        self.backend = backend            # None=default minisat, 'cadical', 'kissat', 'z3', 'cvc5'
        self.expect_known = expect_known  # id of a known finding this obligation is expected to reproduce
        self.weight = weight if weight != 1 or not isinstance(backend, (list, tuple)) else len(backend)
        self.native_defs = list(native_defs)
        self.objbits = objbits
        self.typed_calloc = typed_calloc   # CBMC build only: calloc(1, s) -> zeroed malloc(s), so that CBMC types the object
        self.units_note = []
        self.unwind_text = list(unwind_text)   # [(function, regex on the loop's source line, bound)]: resolved to loop ids after the build


def sh(cmd, cwd=None, timeout=None, env=None):
    p = subprocess.run(cmd, cwd=cwd, stdout=subprocess.PIPE, stderr=subprocess.STDOUT, timeout=timeout, env=env)
    return p.returncode, p.stdout.decode('utf-8', 'replace')


def _unit_defs(src):
    return ['-D__FILENAME__="%s"' % os.path.basename(src)]


def build_goto(obl, wd, extra_defs):
    """goto-cc every named unit of /repo/src, cut seams, link with harness + stubs."""
    os.makedirs(wd, exist_ok=True)
    objs = []
    defs = BASE_DEFS + ['-D' + d for d in obl.defines] + ['-D' + d for d in extra_defs]
    udefs = list(defs)
    if obl.typed_calloc:
        # every calloc in jls is calloc(1, size); CBMC models calloc as an untyped byte array (field reads through it made symex
        # ~100x slower), while malloc(sizeof(T)) yields a typed object.  Same semantics: zero-filled allocation of `size` bytes.
        udefs += ['-include', os.path.join(HARNESS, 'typed_calloc.h')]
    for u in obl.units:
        src = os.path.join(REPO, 'src', u)
        out = os.path.join(wd, u.replace('/', '_') + '.gb')
        rc, o = sh(['goto-cc', '-c', src, '-o', out] + INCLUDES + udefs + _unit_defs(src))
        if rc:
            raise RuntimeError('goto-cc failed for %s:\n%s' % (u, o))
        for fn in obl.seams.get(u, []):
            out2 = out + '.cut.gb'
            rc, o = sh(['goto-instrument', '--remove-function-body', fn, out, out2])
            if rc or not os.path.exists(out2):
                raise RuntimeError('seam cut failed for %s:%s\n%s' % (u, fn, o))
            if 'not found' in o or 'no body' in o.lower():
                raise RuntimeError('seam function %s not present in %s (source changed?)\n%s' % (fn, u, o))
            os.replace(out2, out)
        objs.append(out)
    for s in list(obl.stubs) + [obl.harness]:
        src = os.path.join(HARNESS, s)
        out = os.path.join(wd, 'h_' + s.replace('/', '_') + '.gb')
        rc, o = sh(['goto-cc', '-c', src, '-o', out, '-msse4.2'] + INCLUDES + defs + _unit_defs(src))
        if rc:
            raise RuntimeError('goto-cc failed for harness %s:\n%s' % (s, o))
        objs.append(out)
    final = os.path.join(wd, 'final.gb')
    rc, o = sh(['goto-cc', '-o', final, '--function', obl.function] + objs)
    if rc:
        raise RuntimeError('goto-cc link failed:\n%s' % o)
    return final


_src_cache = {}


def resolve_loops(final, specs):
    """Map (function, regex-on-source-line, bound) to CBMC loop ids of the freshly built binary, so that bounds follow
    the loops when /repo's source moves.  A loop of a listed function that matches no regex keeps the global --unwind."""
    rc, out = sh(['goto-instrument', '--show-loops', final])
    res = []
    for m in re.finditer(r'Loop (\S+):\n\s+file (\S+) line (\d+)', out):
        lid, f, ln = m.group(1), m.group(2), int(m.group(3))
        fn = lid.rsplit('.', 1)[0]
        if f not in _src_cache:
            try:
                _src_cache[f] = open(f, errors='replace').read().split('\n')
            except OSError:
                _src_cache[f] = []
        lines = _src_cache[f]
        text = lines[ln - 1] if 0 < ln <= len(lines) else ''
        for (sfn, rx, bound) in specs:
            if sfn == fn and re.search(rx, text):
                res.append('%s:%d' % (lid, bound))
                break
    return res


def _limit(mem_gb):
    def f():
        os.setsid()
        if mem_gb:
            b = int(mem_gb * (1 << 30))
            resource.setrlimit(resource.RLIMIT_AS, (b, b))
    return f


PORTFOLIO = ['cadical', 'kissat', 'minisat']


def _backend_flags(b):
    # default is cadical: minisat's preprocessing was measured 88 s vs 0.01 s on a 100k-variable gate query
    if b is None or b == 'cadical':
        return ['--sat-solver', 'cadical']
    if b == 'minisat':
        return []
    if b == 'kissat':
        return ['--external-sat-solver', 'kissat']
    if b == 'z3':
        return ['--z3']
    if b == 'cvc5':
        return ['--cvc5']
    return []


def run_cbmc(obl, final, wd, unwind, unwindset, timeout, extra=(), tagsuffix=''):
    """Run one query; with a list of back ends run them as a portfolio (first verdict wins, rest killed)."""
    base = ['cbmc', final, '--function', obl.function] + CBMC_FLAGS + obl.flags + list(extra)
    if unwind is not None:
        base += ['--unwind', str(unwind)]
    if unwindset:
        base += ['--unwindset', ','.join(unwindset)]
    if obl.objbits:
        base += ['--object-bits', str(obl.objbits)]
    backends = obl.backend if isinstance(obl.backend, (list, tuple)) else [obl.backend]
    procs = []
    t0 = time.time()
    for b in backends:
        tag = (b or 'cadical')
        outp = os.path.join(wd, 'cbmc.%s%s.json' % (tag, tagsuffix))
        rssf = os.path.join(wd, 'rss.%s.txt' % tag)
        cmd = base + _backend_flags(b)
        fo = open(outp, 'wb')
        # private TMPDIR per solver process: cbmc writes multi-GB external-sat*.cnf files there and leaves them behind when killed
        tmpd = os.path.join(wd, 'tmp.%s%s' % (tag, tagsuffix))
        shutil.rmtree(tmpd, ignore_errors=True)
        os.makedirs(tmpd, exist_ok=True)
        env = dict(os.environ, TMPDIR=tmpd, TMP=tmpd, TEMP=tmpd)
        p = subprocess.Popen(['/usr/bin/time', '-f', 'MAXRSS_KB=%M', '-o', rssf] + cmd,
                             stdout=fo, stderr=subprocess.DEVNULL, preexec_fn=_limit(obl.mem_gb), env=env)
        procs.append({'p': p, 'fo': fo, 'out': outp, 'rss': rssf, 'cmd': cmd, 'tag': tag, 'tmpd': tmpd})
    winner = None
    status = 'ok'
    while True:
        alive = 0
        for pr in procs:
            rc = pr['p'].poll()
            if rc is None:
                alive += 1
            elif winner is None and 'done' not in pr:
                pr['done'] = True
                pr['fo'].close()
                # a back end that crashed / ran out of memory is not a verdict; look at the output
                chk = parse_cbmc(pr['out'])
                # a back end that leaves properties without verdict (status ERROR/UNKNOWN: e.g. the external SAT solver when cbmc
                # needs several solver iterations) is no verdict either: keep waiting for the others, fall back to it only if all fail
                noverdict = [r for r in chk.get('results', []) if r.get('status') not in ('SUCCESS', 'FAILURE')]
                if chk['verdict'] == 'parsed' and not noverdict:
                    winner = pr
                elif chk['verdict'] == 'parsed':
                    pr['bad'] = '%d properties without verdict' % len(noverdict)
                    pr['partial'] = True
                else:
                    pr['bad'] = chk.get('error', '')
        if winner is not None or alive == 0:
            break
        if time.time() - t0 > timeout:
            status = 'timeout'
            break
        time.sleep(0.2)
    for pr in procs:
        if pr['p'].poll() is None:
            try:
                os.killpg(pr['p'].pid, signal.SIGKILL)
            except ProcessLookupError:
                pass
            pr['p'].wait()
        try:
            pr['fo'].close()
        except Exception:
            pass
        shutil.rmtree(pr['tmpd'], ignore_errors=True)
    wall = time.time() - t0
    if winner is None:
        part = [pr for pr in procs if pr.get('partial')]
        winner = part[0] if part else procs[0]
        if status != 'timeout':
            status = 'ok'   # parse_cbmc on the output will report the error
    rss = 0
    try:
        m = re.search(r'MAXRSS_KB=(\d+)', open(winner['rss']).read())
        rss = int(m.group(1)) if m else 0
    except OSError:
        pass
    for pr in procs:
        if pr is not winner:
            try:
                os.remove(pr['out'])
            except OSError:
                pass
    return status, wall, rss, winner['out'], winner['cmd'], winner['tag']


def parse_cbmc(outp):
    """-> dict(verdict, results[], stats). verdict: 'parsed' or 'error'."""
    try:
        txt = open(outp, 'rb').read().decode('utf-8', 'replace')
        j = json.loads(txt)
    except Exception as e:  # truncated (killed) or not JSON
        return {'verdict': 'error', 'error': 'unparsable cbmc output: %s' % e, 'results': [], 'msgs': []}
    results = []
    msgs = []
    cprover = None
    for m in j:
        if 'result' in m:
            results = m['result']
        if 'messageText' in m:
            msgs.append(m['messageText'])
        if 'cProverStatus' in m:
            cprover = m['cProverStatus']
    stats = {}
    for t in msgs:
        mm = re.search(r'(\d+) variables, (\d+) clauses', t)
        if mm:
            stats['variables'] = int(mm.group(1)); stats['clauses'] = int(mm.group(2))
        mm = re.search(r'Runtime Symex: ([\d.e+-]+)s', t)
        if mm:
            stats['symex_s'] = float(mm.group(1))
        mm = re.search(r'Runtime Solver: ([\d.e+-]+)s', t)
        if mm:
            stats['solver_s'] = stats.get('solver_s', 0.0) + float(mm.group(1))
        mm = re.search(r'Runtime decision procedure: ([\d.e+-]+)s', t)
        if mm:
            stats['decision_s'] = float(mm.group(1))
        mm = re.search(r'size of program expression: (\d+) steps', t)
        if mm:
            stats['steps'] = int(mm.group(1))
        mm = re.search(r'Generated (\d+) VCC\(s\), (\d+) remaining', t)
        if mm:
            stats['vccs'] = int(mm.group(1)); stats['vccs_remaining'] = int(mm.group(2))
    if cprover is None and not results:
        errs = [t for t in msgs if 'error' in t.lower() or 'fail' in t.lower()]
        return {'verdict': 'error', 'error': '; '.join(errs[-3:]) or 'no result in cbmc output', 'results': [], 'msgs': msgs}
    return {'verdict': 'parsed', 'results': results, 'stats': stats, 'cprover': cprover, 'msgs': msgs}


def trace_inputs(trace):
    out = []
    for st in trace:
        if st.get('stepType') == 'input':
            vals = st.get('values') or []
            if not vals:
                continue
            v = vals[0]
            b = v.get('binary')
            if b is not None:
                out.append((st['inputID'], int(b, 2)))
            elif v.get('name') == 'boolean' or isinstance(v.get('data'), bool):
                out.append((st['inputID'], 1 if v.get('data') in (True, 'true', 'TRUE') else 0))
            else:
                d = str(v.get('data'))
                mm = re.match(r'-?\d+', d)
                out.append((st['inputID'], int(mm.group(0)) & ((1 << 64) - 1) if mm else 0))
    return out


def is_witness(r):
    return 'WITNESS reachability' in (r.get('description') or '')


def is_unwind(r):
    return 'unwinding assertion' in (r.get('description') or '') or '.unwind.' in r.get('property', '')


def is_ptr_overflow(r):
    return 'pointer arithmetic' in (r.get('description') or '') or '.pointer_arithmetic.' in r.get('property', '')


def build_native(obl, wd, extra_defs):
    """Replay build: the same harness and stubs, the same real units, gcc + ASan/UBSan."""
    nd = os.path.join(wd, 'native')
    os.makedirs(nd, exist_ok=True)
    defs = BASE_DEFS + ['-DREPLAY=1'] + ['-D' + d for d in obl.defines] + ['-D' + d for d in extra_defs] + ['-D' + d for d in obl.native_defs]
    cflags = ['-g', '-O0', '-fno-inline', '-fsanitize=address,undefined', '-fno-sanitize-recover=undefined',
              '-fno-omit-frame-pointer', '-w', '-msse4.2']
    objs = []
    for u in obl.units:
        src = os.path.join(REPO, 'src', u)
        out = os.path.join(nd, u.replace('/', '_') + '.o')
        rc, o = sh(['gcc', '-c', src, '-o', out] + cflags + INCLUDES + defs + _unit_defs(src))
        if rc:
            raise RuntimeError('native compile failed for %s:\n%s' % (u, o))
        for fn in obl.seams.get(u, []):
            rc, o = sh(['objcopy', '--weaken-symbol=' + fn, out])
            if rc:
                raise RuntimeError('objcopy failed: ' + o)
        objs.append(out)
    for s in list(obl.stubs) + [obl.harness, 'replay_rt.c']:
        src = os.path.join(HARNESS, s)
        out = os.path.join(nd, 'h_' + s.replace('/', '_') + '.o')
        rc, o = sh(['gcc', '-c', src, '-o', out] + cflags + INCLUDES + defs + _unit_defs(src))
        if rc:
            raise RuntimeError('native compile failed for %s:\n%s' % (s, o))
        objs.append(out)
    exe = os.path.join(nd, 'replay')
    link = ['gcc', '-o', exe] + objs + ['-fsanitize=address,undefined', '-lm', '-lpthread']
    rc, o = sh(link)
    if rc:
        # functions of units that are not part of this obligation: define each as a trap so that the link succeeds
        # and reaching one is reported instead of silently ignored
        undef = sorted(set(re.findall(r"undefined reference to `([A-Za-z_][A-Za-z0-9_]*)'", o)))
        if not undef:
            raise RuntimeError('native link failed:\n%s' % o)
        tsrc = os.path.join(nd, 'unlinked_traps.c')
        with open(tsrc, 'w') as f:
            f.write('#include <stdio.h>\n#include <stdlib.h>\n')
            for u in undef:
                f.write('void %s(void) { fprintf(stderr, "REPLAY: reached function %s of a unit that is not linked in this obligation\\n"); exit(5); }\n' % (u, u))
        tobj = os.path.join(nd, 'unlinked_traps.o')
        rc, o2 = sh(['gcc', '-c', tsrc, '-o', tobj, '-w'])
        rc, o = sh(link + [tobj])
        if rc:
            raise RuntimeError('native link failed:\n%s' % o)
    return exe


def run_replay(exe, inputs_file, timeout=20):
    env = dict(os.environ)
    env['VERIF_REPLAY_FILE'] = inputs_file
    env['ASAN_OPTIONS'] = 'detect_leaks=0:abort_on_error=0:exitcode=23'
    env['UBSAN_OPTIONS'] = 'print_stacktrace=1:halt_on_error=1:exitcode=24'
    try:
        p = subprocess.run([exe], stdout=subprocess.PIPE, stderr=subprocess.STDOUT, timeout=timeout, env=env,
                           preexec_fn=_limit(0))
        out = p.stdout.decode('utf-8', 'replace')
        rc = p.returncode
    except subprocess.TimeoutExpired as e:
        out = (e.stdout or b'').decode('utf-8', 'replace')[-2000:]
        return 'hang', out
    if rc == 0:
        return 'clean', out
    if rc == 3:
        return 'assume-fail', out
    if rc in (4, 5, 126, 127) or 'error while loading shared libraries' in out:
        return 'replay-error', out
    if rc == 1 and 'REPLAY: VIOLATED' in out:
        return 'assert', out
    if 'AddressSanitizer' in out or 'runtime error' in out or rc in (23, 24) or rc < 0:
        return 'memory', out
    return 'crash', out


class Result:
    def __init__(self, obl):
        self.obl = obl
        self.status = 'pending'   # held | violated | known | inconclusive | error | vacuous
        self.rung = None
        self.attempts = []
        self.failed = []          # list of dicts for failed properties
        self.replays = []
        self.wall = 0.0
        self.note = ''


def _safe(s):
    return re.sub(r'[^A-Za-z0-9_.-]+', '_', s)


def run_obligation(prop, obl, tier):
    res = Result(obl)
    t00 = time.time()
    for (label, xdefs, xunwindset, xunwind) in obl.ladder:
        wd = os.path.join(BUILD, prop, _safe(obl.name), _safe(label))
        shutil.rmtree(wd, ignore_errors=True)
        att = {'rung': label, 'defines': list(obl.defines) + list(xdefs)}
        try:
            final = build_goto(obl, wd, xdefs)
        except Exception as e:
            res.status = 'error'
            res.note = str(e)[-1500:]
            att['error'] = res.note
            res.attempts.append(att)
            break
        unwind = xunwind if xunwind is not None else obl.unwind
        unwindset = list(xunwindset if xunwindset is not None else obl.unwindset)
        if obl.unwind_text:
            try:
                unwindset += resolve_loops(final, obl.unwind_text)
            except Exception as e:
                res.status = 'error'
                res.note = 'loop resolution failed: %s' % e
                att['error'] = res.note
                res.attempts.append(att)
                break
        timeout = obl.timeout * TIMEOUT_SCALE
        st, wall, rss, outp, cmd, btag = run_cbmc(obl, final, wd, unwind, unwindset, timeout)
        att.update({'backend': btag, 'wall_s': round(wall, 2), 'max_rss_mb': rss // 1024, 'unwind': unwind, 'unwindset': unwindset,
                    'cmd': ' '.join(cmd[1:]).replace(BUILD, 'build')})
        if st == 'timeout':
            att['verdict'] = 'timeout(%ds)' % int(timeout)
            res.attempts.append(att)
            continue
        pr = parse_cbmc(outp)
        if pr['verdict'] == 'error':
            att['verdict'] = 'error: ' + pr.get('error', '')[:400]
            res.attempts.append(att)
            # out-of-memory or solver error: try a smaller rung
            continue
        att['stats'] = pr.get('stats', {})
        results = pr['results']
        odd = [r for r in results if r.get('status') not in ('SUCCESS', 'FAILURE')]
        has_real_fail = any(r.get('status') == 'FAILURE' and not is_witness(r) for r in results)
        # UNKNOWN next to a FAILURE is normal (paths behind a failed unwinding assertion are cut): the failure decides.
        if (odd and not has_real_fail) or not results:
            # e.g. solver ran out of memory: properties come back as ERROR/UNKNOWN - not a verdict
            att['verdict'] = 'error: %d properties without verdict (%s)' % (len(odd), (odd[0].get('status') if odd else 'no results'))
            res.attempts.append(att)
            continue
        n = len(results)
        fails = [r for r in results if r.get('status') == 'FAILURE']
        wit = [r for r in results if is_witness(r)]
        wit_failed = [r for r in wit if r.get('status') == 'FAILURE']
        real_fails = [r for r in fails if not is_witness(r)]
        att['properties_checked'] = n
        att['properties_failed'] = len(real_fails)
        att['witness'] = ('reachable' if wit_failed else ('UNREACHABLE' if wit else 'none'))
        res.rung = label
        res.attempts.append(att)
        if real_fails:
            # phase 2: one traced query per failed property (at most 3; unwinding failures first are least informative)
            real_fails.sort(key=lambda r: (is_unwind(r), is_ptr_overflow(r)))
            traced = []
            for k, fr in enumerate(real_fails[:3]):
                st2, wall2, rss2, outp2, cmd2, btag2 = run_cbmc(obl, final, wd, unwind, unwindset, timeout,
                                                                extra=['--trace', '--property', fr['property']], tagsuffix='.t%d' % k)
                pr2 = parse_cbmc(outp2) if st2 != 'timeout' else {'verdict': 'error', 'results': []}
                got = [r for r in pr2.get('results', []) if r.get('property') == fr['property'] and r.get('status') == 'FAILURE']
                if got:
                    traced.append(got[0])
                else:
                    fr = dict(fr); fr['trace'] = []
                    traced.append(fr)
                try:
                    os.remove(outp2)
                except OSError:
                    pass
            att['failed_properties'] = [{'property': r.get('property'), 'description': r.get('description')} for r in real_fails[:12]]
            res.failed = traced
            res.status = 'violated'
            res._wd = wd
            res._xdefs = xdefs
        elif wit and not wit_failed:
            res.status = 'vacuous'
            res.note = 'witness assertion not reachable: harness is vacuous'
        else:
            res.status = 'held'
        # cbmc.json can be large; keep only for failures
        if not real_fails:
            try:
                os.remove(outp)
            except OSError:
                pass
        break
    else:
        res.status = 'inconclusive'
    if res.status == 'pending':
        res.status = 'inconclusive'
    res.wall = time.time() - t00
    return res


def confirm_violation(prop, res):
    """Replay each failed property natively against the real sources. Returns list of confirmations."""
    obl = res.obl
    wd = res._wd
    confs = []
    try:
        exe = build_native(obl, wd, res._xdefs)
    except Exception as e:
        return [{'property': r.get('property'), 'description': r.get('description'), 'replay': 'build-error', 'detail': str(e)[-800:]} for r in res.failed]
    os.makedirs(os.path.join(REPLAYDIR, prop), exist_ok=True)
    seen = set()
    for idx, r in enumerate(res.failed):
        ins = trace_inputs(r.get('trace', []))
        key = (tuple(ins), is_unwind(r))
        desc = r.get('description', '')
        loc = r.get('sourceLocation', {})
        where = '%s:%s %s' % (os.path.basename(loc.get('file', '?')), loc.get('line', '?'), loc.get('function', ''))
        rp = os.path.join(REPLAYDIR, prop, '%s.%s.%d.inputs' % (_safe(obl.name), _safe(res.rung or 'r'), idx))
        with open(rp, 'w') as f:
            f.write('# property=%s obligation=%s rung=%s\n' % (prop, obl.name, res.rung))
            f.write('# failed: %s | %s | %s\n' % (r.get('property'), desc, where))
            f.write('# defines: %s\n' % ' '.join(list(obl.defines) + list(res._xdefs)))
            for nm, v in ins:
                f.write('%s %d\n' % (nm, v))
        kind, out = run_replay(exe, rp)
        reproduced = kind in ('assert', 'memory', 'crash') or (kind == 'hang' and is_unwind(r))
        if kind == 'hang' and not is_unwind(r):
            reproduced = True  # non-termination found while checking another property: still a real failure
        conf = {'property': r.get('property'), 'description': desc, 'where': where, 'replay_file': rp,
                'replay': kind, 'reproduced': reproduced, 'unwind': is_unwind(r), 'ptr_overflow': is_ptr_overflow(r),
                'inputs': ins[:40], 'detail': out[-1200:]}
        confs.append(conf)
    return confs


# --------------------------------------------------------------------------- known findings

def load_known():
    known, fixed = [], []
    if os.path.exists(KNOWN_FINDINGS):
        for line in open(KNOWN_FINDINGS):
            line = line.strip()
            if not line or line.startswith('#'):
                continue
            m = re.match(r'known:\s+property=(\S+)\s+id=(\S+)\s+(.*)', line)
            if m:
                known.append({'property': m.group(1), 'id': m.group(2), 'what': m.group(3)})
                continue
            m = re.match(r'fixed:\s+property=(\S+)\s+(\S+)\s+(.*)', line)
            if m:
                fixed.append({'property': m.group(1), 'commit': m.group(2), 'what': m.group(3)})
    return known, fixed


# --------------------------------------------------------------------------- driver

def run_property(prop, title, obligations, tier, level_text, trusted_base, outside, explanation):
    t0 = time.time()
    seed = int(os.environ.get('VERIF_SEED', '0') or 0)
    known, fixed = load_known()
    known_ids = {k['id'] for k in known if k['property'] == prop}
    obls = []
    for o in obligations:
        if tier not in o.tiers:
            continue
        if o.expect_known and o.expect_known not in known_ids:
            # confirm-query of a finding that is not (or no longer) listed: nothing to confirm
            continue
        # exclusions for listed findings are compiled in through -DKF_<id>
        o.defines = list(o.defines) + ['KF_' + _safe(k) for k in sorted(known_ids)]
        obls.append(o)
    log('[%s] %s: %d obligations, tier=%s, jobs=%d' % (prop, title, len(obls), tier, JOBS))
    results = []
    sem_lock = threading.Lock()
    budget = {'w': JOBS}
    cond = threading.Condition(sem_lock)

    def task(o):
        w = min(o.weight, JOBS)
        with cond:
            while budget['w'] < w:
                cond.wait()
            budget['w'] -= w
        try:
            r = run_obligation(prop, o, tier)
            if r.status == 'violated':
                r.replays = confirm_violation(prop, r)
            return r
        finally:
            with cond:
                budget['w'] += w
                cond.notify_all()

    with cf.ThreadPoolExecutor(max_workers=JOBS) as ex:
        futs = {ex.submit(task, o): o for o in sorted(obls, key=lambda o: -o.timeout)}
        for f in cf.as_completed(futs):
            o = futs[f]
            try:
                r = f.result()
            except Exception as e:
                r = Result(o); r.status = 'error'; r.note = repr(e)
            results.append(r)
            a = r.attempts[-1] if r.attempts else {}
            log('[%s]   %-44s %-12s rung=%s %.1fs rss=%sMB props=%s %s' % (
                prop, o.name, r.status, r.rung, r.wall, a.get('max_rss_mb', '?'), a.get('properties_checked', '?'),
                (r.note[:300] if r.status in ('error', 'vacuous') else '')))

    violations = []
    known_lines = []
    unconfirmed = []
    exit_code = 0
    for r in results:
        o = r.obl
        if o.expect_known:
            kf = [k for k in known if k['id'] == o.expect_known][0]
            if r.status == 'violated' and any(c.get('reproduced') for c in r.replays):
                known_lines.append('KNOWN-FINDING: property=%s id=%s %s' % (prop, kf['id'], kf['what']))
                r.status = 'known'
            elif r.status == 'held':
                r.note = 'listed known finding %s no longer reproduces' % kf['id']
            continue
        if r.status == 'violated':
            repro = [c for c in r.replays if c.get('reproduced')]
            if repro:
                violations.append((r, repro))
            else:
                unconfirmed.append(r)
    for line in known_lines:
        log(line)
    for r, repro in violations:
        for c in repro[:3]:
            log('[%s]   counterexample %s: %s @ %s -> replay %s' % (prop, r.obl.name, c['description'], c['where'], c['replay']))
        log('VIOLATION property=%s replay=%s' % (prop, repro[0]['replay_file']))
        exit_code = 1
    for r in unconfirmed:
        kinds = sorted({c.get('replay') for c in r.replays})
        only_ptr = all(c.get('ptr_overflow') for c in r.replays)
        log('[%s]   UNCONFIRMED counterexample in %s (replay: %s)%s: %s' % (
            prop, r.obl.name, ','.join(kinds), ' [pointer-arithmetic UB only, no sanitizer can confirm]' if only_ptr else '',
            '; '.join('%s @ %s' % (c.get('description'), c.get('where', c.get('detail', ''))) for c in r.replays[:3])))
        if exit_code == 0:
            exit_code = 2
    bad = [r for r in results if r.status in ('inconclusive', 'error', 'vacuous') and not r.obl.expect_known]
    for r in bad:
        log('[%s]   NOT DECIDED: %s (%s) %s' % (prop, r.obl.name, r.status, r.note[:500]))
        for a in r.attempts:
            log('[%s]       rung %s: %s' % (prop, a.get('rung'), a.get('verdict', a.get('error', ''))))
        if exit_code == 0:
            exit_code = 2

    wall = time.time() - t0
    write_evidence(prop, title, tier, seed, results, wall, level_text, trusted_base, outside, explanation,
                   known_lines, len(violations), fixed)
    held = sum(1 for r in results if r.status == 'held')
    log('[%s] done: %d/%d obligations held, %d violated, %d known, %d undecided, %.0fs' % (
        prop, held, len(results), len(violations), len(known_lines), len(bad) + len(unconfirmed), wall))
    return exit_code


def write_evidence(prop, title, tier, seed, results, wall, level_text, trusted_base, outside, explanation,
                   known_lines, n_viol, fixed):
    os.makedirs(EVIDENCE, exist_ok=True)
    obls = []
    fn_units = set()
    total_solver = 0.0
    total_props = 0
    for r in sorted(results, key=lambda r: r.obl.name):
        o = r.obl
        fn_units.update(o.units)
        fn_units.update(getattr(o, 'units_note', []))
        a = r.attempts[-1] if r.attempts else {}
        stt = a.get('stats', {})
        total_solver += stt.get('solver_s', 0.0) + stt.get('decision_s', 0.0)
        total_props += a.get('properties_checked', 0) or 0
        e = {
            'obligation': o.name, 'what': o.desc, 'status': r.status, 'bound_decided': r.rung,
            'bound_text': o.bound, 'units_encoded': o.units + list(getattr(o, 'units_note', [])), 'seams_stubbed': o.seams, 'environment_stubs': o.stubs,
            'harness': 'harness/' + o.harness, 'assumes': o.assumes, 'backend': (r.attempts[-1].get('backend') if r.attempts else None) or 'cadical',
            'attempts': r.attempts, 'wall_s': round(r.wall, 1),
        }
        if r.status in ('violated', 'known'):
            e['counterexamples'] = [{k: c.get(k) for k in ('property', 'description', 'where', 'replay', 'reproduced', 'replay_file', 'inputs')} for c in r.replays[:5]]
        if r.note:
            e['note'] = r.note
        obls.append(e)
    n = len(results)
    discharged = sum(1 for r in results if r.status == 'held')
    ev = {
        'property_id': prop,
        'tier': tier,
        'seed': seed,
        'level': 'other',
        'wall_s': round(wall, 1),
        'violations': n_viol,
        'coverage': {
            'explanation': explanation,
            'technique': 'bounded symbolic execution of the real C units (goto-cc from /repo working tree) + SAT/SMT verdict (CBMC 6.11); counterexamples replayed natively under ASan/UBSan',
            'obligations': n,
            'discharged': discharged,
            'known_findings_reproduced': known_lines,
            'cbmc_properties_checked_total': total_props,
            'solver_time_s_total': round(total_solver, 1),
            'units_encoded': sorted(fn_units),
            'checker_cmd': 'cbmc <final.gb> --function harness ' + ' '.join(CBMC_FLAGS),
            'trusted_base': trusted_base,
            'outside_the_claim': outside,
            'samples': obls,
            'fixed_findings_on_record': [f for f in fixed if f['property'] == prop],
        },
        'assumptions': sorted({a for r in results for a in r.obl.assumes}) + ['allocation failure is out of scope (--no-malloc-may-fail)'],
    }
    with open(os.path.join(EVIDENCE, prop + '.json'), 'w') as f:
        json.dump(ev, f, indent=1)


def replay_file(path):
    """Re-run a stored counterexample: rebuild the native replay from its header and run it."""
    hdr = {}
    for line in open(path):
        if not line.startswith('#'):
            break
        m = re.match(r'# property=(\S+) obligation=(\S+) rung=(\S+)', line)
        if m:
            hdr.update(prop=m.group(1), obl=m.group(2), rung=m.group(3))
    return hdr
