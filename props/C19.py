from vlib import Obl, PORTFOLIO

TITLE = 'Repair converges and a good file is never modified by reading'
LEVEL_TEXT = ('bounded symbolic verification that the read path issues no backend write (raw layer over a symbolic image) and that the real jls_rd_open enters the repair '
              'branch only for a file whose last valid chunk is not END')
TRUSTED = ['cbmc 6.11', 'membk.c (a file opened "r" rejects writes, as O_RDONLY does)', 'crcfun.c']
OUTSIDE = ['idempotence of repair over all crash images (inherits C03)', 'whole reader sessions on real files', 'the raw navigation calls (next/prev/item/scan): the 3-call navigation harness (MODE_RDONLY in c04_raw.c) ran out of memory at 11 GB and is not claimed']
EXPLANATION = ('O1: jls_raw_open("r") on a symbolic file image, jls_raw_rd of a fully symbolic chunk, close: the backend write log and truncate counter of the in-memory backend stay empty; '
               'the same for every possible 32-byte file header. A file opened "r" rejects writes in the model exactly as O_RDONLY does, so a write attempt would also surface as an error path.')


def obligations(tier):
    o = []
    pm = 12 if tier == 'quick' else 24
    o.append(Obl('O1_open_read_close_no_write', 'c04_raw.c', units=['raw.c'], stubs=['log_stub.c', 'membk.c', 'crcfun.c'], defines=['MODE_RD=1', 'PMAX=%d' % pm, 'MEMBK_SIZE=256'],
                 unwind=pm + 50, timeout=900, backend=PORTFOLIO,
                 desc='jls_raw_open("r") + jls_raw_rd + jls_raw_close on a fully symbolic chunk image of symbolic length: the backend write log and truncate counter stay empty '
                      '(same query as C04-O1, which also asserts the read-only clause)',
                 bound='one chunk, payload <= %d (+8), symbolic file length' % pm))
    o.append(Obl('O1_open_no_write', 'c04_raw.c', units=['raw.c'], stubs=['log_stub.c', 'membk.c', 'crcfun.c'], defines=['MODE_OPEN=1', 'MEMBK_SIZE=256'],
                 unwind=40, timeout=600, backend=PORTFOLIO,
                 desc='jls_raw_open("r") (+ close) on any 32-byte file header and file length 0..40: no backend write, no truncate, whether or not the open succeeds',
                 bound='all 2^256 file headers'))
    o.append(Obl('O2_rd_open_repair_decision', 'c19_open.c', units=['reader.c', 'buffer.c'],
                 defines=['JLS_VERIF_SIGNAL_COUNT=3', 'JLS_VERIF_SOURCE_COUNT=2', 'JLS_VERIF_FSR_BUFFER_U64=2', 'JLS_VERIF_BUF_DEFAULT_SIZE=64', 'JLS_VERIF_BUF_STRING_SIZE=16'],
                 unwind=8, typed_calloc=True, timeout=600, backend=PORTFOLIO,
                 desc='real jls_rd_open/jls_rd_close over contract stubs: the repair branch (append mode, truncate, rewrite, pointer repair, summary rebuild, END) is entered iff the '
                      'last valid chunk is not END, and then for every track of the signal (FSR, annotation, UTC); symbolic last tag, with and without FSR data (the first-sample-id scan overwrites chunk_cur like the real one)',
                 bound='one FSR signal; every step succeeds',
                 assumes=['contract stubs for everything jls_rd_open calls (core.c, raw.c, track.c, wr_fsr.c not linked)']))
    cases = [('annotation', 'JLS_TRACK_TYPE_ANNOTATION', 3, 'CUT', 'CUT'), ('utc', 'JLS_TRACK_TYPE_UTC', 2, 'CUT', 'CUT'), ('annotation', 'JLS_TRACK_TYPE_ANNOTATION', 2, '0', 'CUT')]
    cases += [('annotation', 'JLS_TRACK_TYPE_ANNOTATION', 0, '0', '0')]      # ND=0: the FIRST data chunk was lost, head offset [0] = CUT dangles
    if tier != 'quick':
        cases += [('utc', 'JLS_TRACK_TYPE_UTC', 5, '(CUT+1024)', '(CUT+24)'), ('annotation', 'JLS_TRACK_TYPE_ANNOTATION', 1, 'CUT', '0'), ('utc', 'JLS_TRACK_TYPE_UTC', 1, '0', '(CUT+8)'), ('annotation', 'JLS_TRACK_TYPE_ANNOTATION', 4, '0', '0')]
    for tname, tdef, nd, lost, dang in cases:
        nm = 'O3_repair_pointers_%s_n%d_idx%s_next%s' % (tname, nd, 'none' if lost == '0' else 'lost', 'end' if dang == '0' else 'lost')
        o.append(Obl(nm, 'c19_repair.c', units=['track.c', 'core.c', 'buffer.c'],
                     defines=['JLS_VERIF_SIGNAL_COUNT=2', 'JLS_VERIF_SOURCE_COUNT=2', 'JLS_VERIF_FSR_BUFFER_U64=2', 'JLS_VERIF_BUF_DEFAULT_SIZE=256', 'JLS_VERIF_BUF_STRING_SIZE=16',
                              'ST_N=8', 'ST_PMAX=144', 'TRACK=%s' % tdef, 'ND=%d' % nd, 'LOST_INDEX=%s' % lost, 'DANGLING=%s' % dang],
                     unwind=20, typed_calloc=True, timeout=600, backend=PORTFOLIO, objbits=10, flags=['--max-field-sensitivity-array-size', '2048'],
                     unwind_text=[('jls_core_rd_chunk', r'while \(1\)', 3), ('jls_buf_realloc', r'while \(alloc_size < size\)', 3), ('harness', r'b < 32', 34)],
                     desc='real jls_track_repair_pointers on a truncated %s track (%d surviving DATA chunks; level-1 INDEX %s; last item_next %s): '
                          'afterwards the head offsets in the file equal the in-memory ones, no head offset and no item_next of the surviving chain dangles, the surviving chain is untouched'
                          % (tname, nd, 'absent' if lost == '0' else 'lost with the cut (offset %s)' % lost, '0' if dang == '0' else 'pointing at a chunk lost with the cut (offset %s)' % dang),
                     bound='%d DATA chunks, no surviving INDEX/SUMMARY level; dangling offsets concrete per instance, payload bytes symbolic' % nd,
                     assumes=['raw layer replaced by the chunk-store model rawstore.h (a seek beyond the end succeeds, the read there fails, as in raw.c)']))
    icases = [('CUT', '(CUT+256)', 'CUT'), ('0', '0', 'CUT')] if tier == 'quick' else [('CUT', '(CUT+256)', 'CUT'), ('0', '0', 'CUT'), ('CUT', '(CUT+256)', '0'), ('0', '0', '0'), ('(CUT+512)', '(CUT+768)', '(CUT+256)')]
    for tname, tdef in (('annotation', 'JLS_TRACK_TYPE_ANNOTATION'), ('utc', 'JLS_TRACK_TYPE_UTC')) if tier != 'quick' else (('annotation', 'JLS_TRACK_TYPE_ANNOTATION'),):
        for ixn, smn, dang in icases:
            nm = 'O3_repair_pointers_%s_level1_idxnext%s_datanext%s' % (tname, 'end' if ixn == '0' else 'lost', 'end' if dang == '0' else 'lost')
            if any(x.name == nm for x in o):
                nm += '_b'
            o.append(Obl(nm, 'c19_repair.c', units=['track.c', 'core.c', 'buffer.c'],
                         defines=['JLS_VERIF_SIGNAL_COUNT=2', 'JLS_VERIF_SOURCE_COUNT=2', 'JLS_VERIF_FSR_BUFFER_U64=2', 'JLS_VERIF_BUF_DEFAULT_SIZE=256', 'JLS_VERIF_BUF_STRING_SIZE=16',
                                  'ST_N=8', 'ST_PMAX=144', 'WITH_INDEX=1', 'TRACK=%s' % tdef, 'IDX_NEXT=%s' % ixn, 'SUM_NEXT=%s' % smn, 'DANGLING=%s' % dang],
                         unwind=20, typed_calloc=True, timeout=600, backend=PORTFOLIO, objbits=10, flags=['--max-field-sensitivity-array-size', '2048'],
                         unwind_text=[('jls_core_rd_chunk', r'while \(1\)', 3), ('jls_buf_realloc', r'while \(alloc_size < size\)', 3), ('harness', r'b < 32', 34), ('harness', r'b < 48', 50)],
                         desc='real jls_track_repair_pointers on a cut %s track with one surviving level-1 INDEX/SUMMARY pair (3 DATA chunks; next INDEX/SUMMARY %s; last DATA item_next %s): '
                              'heads in the file equal the in-memory ones, surviving levels keep their heads, every link is untouched or a dangling one cleared, headers and payloads of survivors untouched'
                              % (tname, 'absent' if ixn == '0' else 'lost with the cut', '0' if dang == '0' else 'lost with the cut'),
                         bound='HEAD + 3 DATA + 1 INDEX/SUMMARY pair; dangling offsets concrete per instance, payload bytes and timestamps symbolic',
                         assumes=['raw layer replaced by the chunk-store model rawstore.h (a seek beyond the end succeeds, the read there fails, as in raw.c)']))
    return o
