/* Common harness vocabulary. One source, two builds:
 *   - goto-cc/CBMC build: SYM_* introduce unconstrained symbolic inputs that are
 *     logged in the counterexample trace via __CPROVER_input.
 *   - REPLAY build (gcc/clang + ASan/UBSan against the real sources): SYM_* read the
 *     values of a counterexample back, in program order, from the replay file.
 */
#ifndef VERIF_COMMON_H_
#define VERIF_COMMON_H_
#include <stdint.h>
#include <stddef.h>
#include <stdbool.h>
#include <string.h>
#include <stdlib.h>

#ifdef REPLAY
#include <stdio.h>
uint64_t replay_next(const char * name);
void replay_done(void);
#define SYM_T(T, v)        T v = (T) replay_next(#v)
#define SYM_SET(T, lv, nm) (lv) = (T) replay_next(nm)
#define ASSUME(c)  do { if (!(c)) { fprintf(stderr, "REPLAY: assumption not satisfied: %s (%s:%d)\n", #c, __FILE__, __LINE__); exit(3); } } while (0)
#define CHECK(c, msg) do { if (!(c)) { fprintf(stderr, "REPLAY: VIOLATED: %s [%s] (%s:%d)\n", msg, #c, __FILE__, __LINE__); fflush(stderr); exit(1); } } while (0)
#define WITNESS_END() do { replay_done(); } while (0)
#define VERIF_UNREACHABLE(msg) CHECK(0, msg)
#else
uint8_t  nondet_uint8_t(void);
uint16_t nondet_uint16_t(void);
uint32_t nondet_uint32_t(void);
uint64_t nondet_uint64_t(void);
int8_t   nondet_int8_t(void);
int16_t  nondet_int16_t(void);
int32_t  nondet_int32_t(void);
int64_t  nondet_int64_t(void);
size_t   nondet_size_t(void);
_Bool    nondet_bool(void);
#define nondet__Bool nondet_bool
#define SYM_T(T, v)        T v = nondet_##T(); __CPROVER_input(#v, v)
#define SYM_SET(T, lv, nm) do { T t__ = nondet_##T(); __CPROVER_input(nm, t__); (lv) = t__; } while (0)
#define ASSUME(c)  __CPROVER_assume(c)
#define CHECK(c, msg) __CPROVER_assert((c), msg)
/* reachability witness: must come back FAILED, otherwise the harness is vacuous */
#define WITNESS_END() __CPROVER_assert(0, "WITNESS reachability (expected to fail)")
#define VERIF_UNREACHABLE(msg) __CPROVER_assert(0, msg)
#endif

#define SYM_U8(v)   SYM_T(uint8_t, v)
#define SYM_U16(v)  SYM_T(uint16_t, v)
#define SYM_U32(v)  SYM_T(uint32_t, v)
#define SYM_U64(v)  SYM_T(uint64_t, v)
#define SYM_I32(v)  SYM_T(int32_t, v)
#define SYM_I64(v)  SYM_T(int64_t, v)
#define SYM_BOOL(v) SYM_T(uint8_t, v##_u8_); _Bool v = (v##_u8_ & 1)

/* fill n bytes at p with symbolic values, logged under one name in order */
#define SYM_BYTES(p, n, nm) do { for (size_t i__ = 0; i__ < (size_t)(n); ++i__) { SYM_SET(uint8_t, ((uint8_t *)(p))[i__], nm); } } while (0)
#define SYM_WORDS64(p, n, nm) do { for (size_t i__ = 0; i__ < (size_t)(n); ++i__) { SYM_SET(uint64_t, ((uint64_t *)(p))[i__], nm); } } while (0)

static inline float verif_f32_from_bits(uint32_t b) { float f; memcpy(&f, &b, 4); return f; }
static inline double verif_f64_from_bits(uint64_t b) { double f; memcpy(&f, &b, 8); return f; }
static inline uint32_t verif_f32_bits(float f) { uint32_t b; memcpy(&b, &f, 4); return b; }
static inline uint64_t verif_f64_bits(double f) { uint64_t b; memcpy(&b, &f, 8); return b; }

/* exact-size heap object: CBMC's own pointer checks decide "never outside the buffer",
 * ASan does the same in the replay build. */
static inline void * verif_malloc(size_t n) {
    void * p = malloc(n ? n : 1);
#ifndef REPLAY
    __CPROVER_assume(p != 0);
#endif
    return p;
}

#endif
