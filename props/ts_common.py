from vlib import Obl, PORTFOLIO

HOOKS = ['JLS_VERIF_SIGNAL_COUNT=2', 'JLS_VERIF_SOURCE_COUNT=2', 'JLS_VERIF_FSR_BUFFER_U64=2']


def ts_obl(name, utc, df, n, timeout=900, tiers=('quick', 'thorough')):
    kind = 'UTC' if utc else 'annotation'
    return Obl(name, 'c11_ts.c', units=['wr_ts.c'],
               defines=HOOKS + ['DF=%d' % df, 'NMAX=%d' % n, 'N_FIXED=%d' % n] + (['UTC_TRACK=1'] if utc else []),
               unwind=18, unwindset=['commit:6'], unwind_text=[('harness', r'k < MAXCH / 2', 23), ('harness', r'i < NMAX', n + 3), ('sink', r'i < PAYMAX', 16 + 16 * df + 2)],
               timeout=timeout, backend=PORTFOLIO, objbits=10, tiers=tiers, mem_gb=16,
               desc='%s index builder (wr_ts.c), decimate factor %d, exactly %d entries with symbolic timestamps/offsets/fields: INDEX/SUMMARY adjacency, level-1 entries in '
                    'write order, upper-level entries reference the indices below, header timestamps, every entry listed once after close' % (kind, df, n),
               bound='%d entries (count fixed per instance), decimate factor %d, timestamps non-decreasing within +-2^40' % (n, df),
               assumes=['the builder state is the one jls_wr_ts_open creates, built with malloc + explicit initialisation instead of calloc'])
