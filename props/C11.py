from vlib import Obl, PORTFOLIO
from props.ts_common import ts_obl

TITLE = 'Annotations round-trip in order and seeking by timestamp omits nothing'
LEVEL_TEXT = ('bounded symbolic verification of the real annotation index builder (wr_ts.c) at the file-layer seam: every annotation is listed exactly once, in write order, in the '
              'level-1 indices, INDEX/SUMMARY pairs are adjacent, upper-level entries reference the indices below with their first timestamp; annotation record payload round-trip')
TRUSTED = ['cbmc 6.11', 'recording sinks at jls_core_wr_index / jls_core_wr_summary / jls_raw_chunk_tell', 'decoder clauses from format.h in harness/c11_ts.c']
OUTSIDE = ['seek completeness of jls_core_ts_seek / jls_core_annotations over a chunk store (reader side not decided by this check)',
           'entry counts other than the listed instances, decimate factors other than 2/3']
EXPLANATION = ('O1: exactly N annotations (one instance per N) with symbolic non-decreasing timestamps (runs of equal timestamps included), symbolic type/group, decimate factor 2 or 3: the '
               'chunk sequence emitted by jls_wr_ts_anno + jls_wr_ts_close is decoded in the harness; a symbolic watched INDEX/SUMMARY pair and entry are compared with the written sequence.')


def obligations(tier):
    o = []
    for n in ([2, 5] if tier == 'quick' else [1, 2, 3, 4, 5, 7]):
        o.append(ts_obl('O1_index_construction_D2_N%d' % n, False, 2, n, timeout=900 if tier == 'quick' else 2400))
    if tier == 'thorough':
        for n in [4, 10]:
            o.append(ts_obl('O1_index_construction_D3_N%d' % n, False, 3, n, timeout=3000, tiers=('thorough',)))
    return o
