/* C02-O3 (window bookkeeping): the real jls_core_fsr_statistics + fsr_statistics (src/reader.c) for a request that is served from
 * level-1 summaries, with the partial first / last entries re-fetched from the samples (the recursive level-0 path).
 * Seams (contract stubs, all recording): jls_core_fsr_seek, jls_raw_chunk_next/tell/seek, jls_core_rd_chunk (serve two linked level-1
 * SUMMARY chunks), jls_core_rd_fsr_data0 (serves the DATA block that holds the requested sample), jls_core_f64_buf_alloc,
 * jls_dt_buffer_to_f64, jls_statistics_* (values are not the subject).
 * Signal: first sample id symbolic (file domain = API + offset), 64 samples, blocks of 4, level-1 entries of 2 samples, 16 entries per
 * level-1 chunk.  Request: symbolic start, increment and length per instance (so that level 1 is selected).
 * Asserted: the call succeeds; every sample block it loads and every level-1 seek lies inside the requested window
 * [start, start + increment * length) in the file domain -- in particular the re-fetch of a partial entry uses the API-domain id
 * exactly once; the number of block loads is bounded by the two partial ends.
 */
#include "common.h"
#include "jls/core.h"
#include "jls/reader.h"
#include "jls/raw.h"
#include "jls/statistics.h"
#include "jls/datatype.h"
#include "jls/ec.h"

#define TOTAL 64
#define BLOCK 4
#define SDF 2
#define EPS 16                       /* level-1 entries per summary chunk = 32 samples */
#define NSUM (TOTAL / (EPS * SDF))
#ifndef INCR
#define INCR 5
#endif
#ifndef LEN
#define LEN 10
#endif

static struct jls_core_s core;
static struct jls_core_fsr_s fsr_obj;
static int64_t first_id;             /* file-domain id of sample 0 */
static int64_t win_lo, win_hi;       /* requested window, file domain */
static int64_t pos;
static uint32_t n_data_loads, n_seeks;
static bool data_inside = true, seek_inside = true, seek_level_ok = true;

#define IDX_OFF(c) (1000 + 100 * (int64_t) (c))
#define SUM_OFF(c) (1050 + 100 * (int64_t) (c))

int64_t jls_raw_chunk_tell(struct jls_raw_s * self) { (void) self; return pos; }
int32_t jls_raw_chunk_seek(struct jls_raw_s * self, int64_t offset) { (void) self; if (offset <= 0) { return JLS_ERROR_IO; } pos = offset; return 0; }
int32_t jls_raw_chunk_next(struct jls_raw_s * self) {
    (void) self;
    for (unsigned c = 0; c < NSUM; ++c) { if (pos == IDX_OFF(c)) { pos = SUM_OFF(c); return 0; } }
    return JLS_ERROR_EMPTY;
}

int32_t jls_core_fsr_seek(struct jls_core_s * self, uint16_t signal_id, uint8_t level, int64_t sample_id) {
    (void) self; (void) signal_id;
    ++n_seeks;
    if (level != 1) { seek_level_ok = false; }
    if (sample_id < win_lo || sample_id >= win_hi) { seek_inside = false; }
    if (sample_id < first_id || sample_id >= first_id + TOTAL) { return JLS_ERROR_NOT_FOUND; }
    pos = IDX_OFF((sample_id - first_id) / (EPS * SDF));
    return 0;
}

int32_t jls_core_rd_chunk(struct jls_core_s * self) {
    for (unsigned c = 0; c < NSUM; ++c) {
        if (pos == SUM_OFF(c)) {
            struct jls_fsr_f32_summary_s * sm = (struct jls_fsr_f32_summary_s *) self->buf->start;
            sm->header.timestamp = first_id + (int64_t) c * EPS * SDF;
            sm->header.entry_count = EPS;
            sm->header.entry_size_bits = 128;
            sm->header.rsv16 = 0;
            float * sd = (float *) (self->buf->start + 16);
            for (unsigned e = 0; e < EPS * 4; ++e) { sd[e] = 1.0f; }
            self->chunk_cur.offset = pos;
            self->chunk_cur.hdr.tag = JLS_TAG_TRACK_FSR_SUMMARY;
            self->chunk_cur.hdr.chunk_meta = (uint16_t) (1 | (1 << 12));
            self->chunk_cur.hdr.payload_length = 16 + 16 * EPS;
            self->chunk_cur.hdr.item_next = (c + 1 < NSUM) ? (uint64_t) SUM_OFF(c + 1) : 0;
            self->buf->length = 16 + 16 * EPS;
            return 0;
        }
    }
    VERIF_UNREACHABLE("a chunk is read at a position that holds no level-1 summary");
    return JLS_ERROR_NOT_FOUND;
}

int32_t jls_core_rd_fsr_data0(struct jls_core_s * self, uint16_t signal_id, int64_t start_sample_id) {
    (void) signal_id;
    ++n_data_loads;
    if (start_sample_id < win_lo || start_sample_id >= win_hi) { data_inside = false; }
    if (start_sample_id < first_id || start_sample_id >= first_id + TOTAL) { return JLS_ERROR_NOT_FOUND; }
    struct jls_fsr_data_s * r = (struct jls_fsr_data_s *) self->buf->start;
    r->header.timestamp = first_id + ((start_sample_id - first_id) / BLOCK) * BLOCK;
    r->header.entry_count = BLOCK;
    r->header.entry_size_bits = 32;
    r->header.rsv16 = 0;
    return 0;
}

/* value plumbing: not the subject */
static struct jls_core_f64_buf_s fb_stats, fb_sample;
static double room_stats[TOTAL], room_sample[TOTAL];
int32_t jls_core_f64_buf_alloc(size_t length, struct jls_core_f64_buf_s ** buf) {
    CHECK(length <= TOTAL, "scratch request within the signal length");
    if (buf == &core.f64_sample_buf) {
        fb_sample.start = room_sample; fb_sample.end = room_sample + TOTAL; fb_sample.alloc_length = TOTAL;
        *buf = &fb_sample;
    } else {
        fb_stats.start = room_stats; fb_stats.end = room_stats + TOTAL; fb_stats.alloc_length = TOTAL;
        *buf = &fb_stats;
    }
    return 0;
}
int32_t jls_dt_buffer_to_f64(const void * src, uint32_t src_datatype, double * dst, size_t samples) {
    (void) src; (void) src_datatype;
    for (size_t i = 0; i < BLOCK; ++i) { if (i < samples) { dst[i] = 1.0; } }
    return 0;
}
void jls_statistics_reset(struct jls_statistics_s * s) { s->k = 0; s->mean = 0.0; s->min = 0.0; s->max = 0.0; s->s = 0.0; }
void jls_statistics_combine(struct jls_statistics_s * tgt, struct jls_statistics_s const * a, struct jls_statistics_s const * b) {
    tgt->k = a->k + b->k;
}
double jls_statistics_var(struct jls_statistics_s * s) { (void) s; return 0.0; }

void harness(void) {
    struct jls_core_signal_s * sig = &core.signal_info[1];
    sig->parent = &core;
    sig->signal_def.signal_id = 1;
    sig->signal_def.signal_type = JLS_SIGNAL_TYPE_FSR;
    sig->signal_def.data_type = JLS_DATATYPE_F32;
    sig->signal_def.sample_rate = 1000;
    sig->signal_def.samples_per_data = BLOCK;
    sig->signal_def.sample_decimate_factor = SDF;
    sig->signal_def.entries_per_summary = EPS;
    sig->signal_def.summary_decimate_factor = 8;
    sig->chunk_def.offset = 64;
    sig->track_fsr = &fsr_obj;
    fsr_obj.parent = sig;
    fsr_obj.signal_length = TOTAL;
    core.buf = jls_buf_alloc();
    ASSUME(core.buf != NULL);
    SYM_I64(off);
    ASSUME(off > -((int64_t) 1 << 40) && off < ((int64_t) 1 << 40));
    first_id = off;
    sig->signal_def.sample_id_offset = off;
    SYM_U32(start);
    ASSUME((uint64_t) start + (uint64_t) INCR * LEN <= TOTAL);
    win_lo = first_id + start;
    win_hi = first_id + start + (int64_t) INCR * LEN;
    static double out[LEN * JLS_SUMMARY_FSR_COUNT];
    int32_t rc = jls_core_fsr_statistics(&core, 1, start, INCR, out, LEN);
    CHECK(rc == 0, "statistics over a window inside the signal succeed");
    CHECK(n_seeks >= 1 && seek_level_ok, "the request is served from level 1");
    CHECK(seek_inside, "every level-1 seek is for a sample inside the requested window");
    CHECK(data_inside, "every sample block loaded is for a sample inside the requested window (partial entries are re-fetched with the right id base)");
    CHECK(n_data_loads <= 2 * (1 + SDF / BLOCK + 1), "sample blocks are loaded only for the two partial ends");
    WITNESS_END();
}
