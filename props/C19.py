from vlib import Obl, PORTFOLIO

TITLE = 'Repair converges and a good file is never modified by reading'
LEVEL_TEXT = ('bounded symbolic verification that the read path issues no backend write (raw layer over a symbolic image) and that the real jls_rd_open enters the repair '
              'branch only for a file whose last valid chunk is not END')
TRUSTED = ['cbmc 6.11', 'membk.c (a file opened "r" rejects writes, as O_RDONLY does)', 'crcfun.c']
OUTSIDE = ['idempotence of repair over all crash images (inherits C03)', 'whole reader sessions on real files', 'the raw navigation calls (next/prev/item/scan): the 3-call navigation harness (MODE_RDONLY in c04_raw.c) ran out of memory at 11 GB and is not claimed']
EXPLANATION = ('O1: jls_raw_open("r") on a symbolic file image, jls_raw_rd of a fully symbolic chunk, close: the backend write log and truncate counter of the in-memory backend stay empty; '
               'the same for every possible 32-byte file header. A file opened "r" rejects writes in the model exactly as O_RDONLY does, so a write attempt would also surface as an error path.')


def obligations(tier):
    o = []
    pm = 12 if tier == 'quick' else 24
    o.append(Obl('O1_open_read_close_no_write', 'c04_raw.c', units=['raw.c'], stubs=['log_stub.c', 'membk.c', 'crcfun.c'], defines=['MODE_RD=1', 'PMAX=%d' % pm, 'MEMBK_SIZE=256'],
                 unwind=pm + 50, timeout=900, backend=PORTFOLIO,
                 desc='jls_raw_open("r") + jls_raw_rd + jls_raw_close on a fully symbolic chunk image of symbolic length: the backend write log and truncate counter stay empty '
                      '(same query as C04-O1, which also asserts the read-only clause)',
                 bound='one chunk, payload <= %d (+8), symbolic file length' % pm))
    o.append(Obl('O1_open_no_write', 'c04_raw.c', units=['raw.c'], stubs=['log_stub.c', 'membk.c', 'crcfun.c'], defines=['MODE_OPEN=1', 'MEMBK_SIZE=256'],
                 unwind=40, timeout=600, backend=PORTFOLIO,
                 desc='jls_raw_open("r") (+ close) on any 32-byte file header and file length 0..40: no backend write, no truncate, whether or not the open succeeds',
                 bound='all 2^256 file headers'))
    o.append(Obl('O2_rd_open_repair_decision', 'c19_open.c', units=['reader.c', 'buffer.c'],
                 defines=['JLS_VERIF_SIGNAL_COUNT=3', 'JLS_VERIF_SOURCE_COUNT=2', 'JLS_VERIF_FSR_BUFFER_U64=2', 'JLS_VERIF_BUF_DEFAULT_SIZE=64', 'JLS_VERIF_BUF_STRING_SIZE=16'],
                 unwind=8, typed_calloc=True, timeout=600, backend=PORTFOLIO,
                 desc='real jls_rd_open/jls_rd_close over contract stubs: the repair branch (append mode, truncate, rewrite, pointer repair, summary rebuild, END) is entered iff the '
                      'last valid chunk is not END; symbolic last tag, with and without FSR data (the first-sample-id scan overwrites chunk_cur like the real one)',
                 bound='one FSR signal; every step succeeds',
                 assumes=['contract stubs for everything jls_rd_open calls (core.c, raw.c, track.c, wr_fsr.c not linked)']))
    return o
