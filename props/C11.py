from vlib import Obl, PORTFOLIO
from props.ts_common import ts_obl

TITLE = 'Annotations round-trip in order and seeking by timestamp omits nothing'
LEVEL_TEXT = ('bounded symbolic verification of the real annotation index builder (wr_ts.c) at the file-layer seam: every annotation is listed exactly once, in write order, in the '
              'level-1 indices, INDEX/SUMMARY pairs are adjacent, upper-level entries reference the indices below with their first timestamp; seek completeness of the real jls_core_ts_seek over such a tree with symbolic timestamps and seek time')
TRUSTED = ['cbmc 6.11', 'recording sinks at jls_core_wr_index / jls_core_wr_summary / jls_raw_chunk_tell', 'decoder clauses from format.h in harness/c11_ts.c']
OUTSIDE = ['the annotation record payload round-trip (type/group/y/storage/payload bytes through jls_wr_annotation)',
           'entry counts other than the listed instances, decimate factors other than 2/3']
EXPLANATION = ('O1: exactly N annotations (one instance per N) with symbolic non-decreasing timestamps (runs of equal timestamps included), symbolic type/group, decimate factor 2 or 3: the '
               'chunk sequence emitted by jls_wr_ts_anno + jls_wr_ts_close is decoded in the harness; a symbolic watched INDEX/SUMMARY pair and entry are compared with the written sequence.')


def obligations(tier):
    o = []
    for n in ([2, 5] if tier == 'quick' else [1, 2, 3, 4, 5, 7]):
        o.append(ts_obl('O1_index_construction_D2_N%d' % n, False, 2, n, timeout=900 if tier == 'quick' else 2400))
    if tier == 'thorough':
        for n in [4, 10]:
            o.append(ts_obl('O1_index_construction_D3_N%d' % n, False, 3, n, timeout=3000, tiers=('thorough',)))
    for n, df in ([(7, 2)] if tier == 'quick' else [(3, 2), (5, 2), (7, 2), (8, 2), (10, 3)]):
        o.append(Obl('O2_seek_completeness_D%d_N%d' % (df, n), 'c11_seek.c', units=['core.c', 'buffer.c'], seams={'core.c': ['jls_core_rd_chunk']},
                     defines=['JLS_VERIF_SIGNAL_COUNT=2', 'JLS_VERIF_SOURCE_COUNT=2', 'JLS_VERIF_FSR_BUFFER_U64=2', 'JLS_VERIF_BUF_DEFAULT_SIZE=128', 'JLS_VERIF_BUF_STRING_SIZE=16',
                              'N_FIXED=%d' % n, 'DF=%d' % df],
                     unwind=18, unwind_text=[('harness', r'i < N_FIXED', n + 2), ('jls_core_rd_chunk', r'c < MAXC', 12), ('jls_core_ts_seek', r'for \\(; ; \\+\\+idx\\)', df + 2)],
                     typed_calloc=True, timeout=900 if tier == 'quick' else 2400, backend=PORTFOLIO, objbits=10,
                     desc='jls_core_ts_seek over an index tree of %d entries (decimate %d, symbolic non-decreasing timestamps, optional single-entry top level), symbolic seek time: '
                          'nothing with timestamp >= t lies before the position found, at most one delivered entry is earlier' % (n, df),
                     bound='%d entries, decimate factor %d, timestamp steps < 1000' % (n, df),
                     assumes=['the index tree satisfies the structure the builder produces (decided in O1_index_construction); chunks are served at the jls_core_rd_chunk seam']))
    for n, df in ([(5, 2)] if tier == 'quick' else [(3, 2), (5, 2), (7, 2)]):
        o.append(Obl('O2_iterate_D%d_N%d' % (df, n), 'c11_seek.c', units=['core.c', 'reader.c', 'buffer.c'], seams={'core.c': ['jls_core_rd_chunk']},
                     defines=['JLS_VERIF_SIGNAL_COUNT=2', 'JLS_VERIF_SOURCE_COUNT=2', 'JLS_VERIF_FSR_BUFFER_U64=2', 'JLS_VERIF_BUF_DEFAULT_SIZE=128', 'JLS_VERIF_BUF_STRING_SIZE=16',
                              'N_FIXED=%d' % n, 'DF=%d' % df, 'MODE_ITERATE=1'],
                     unwind=18, unwind_text=[('harness', r'i < N_FIXED', n + 2), ('jls_core_rd_chunk', r'c < MAXC', 12), ('jls_core_rd_chunk', r'i < N_FIXED', n + 2),
                                             ('jls_core_ts_seek', r'for \\(; ; \\+\\+idx\\)', df + 2), ('jls_core_annotations', r'while \\(pos\\)', n + 2)],
                     typed_calloc=True, timeout=900 if tier == 'quick' else 2400, backend=PORTFOLIO, objbits=10,
                     desc='jls_core_annotations (reader.c) = seek + iteration over %d annotations (decimate %d): symbolic timestamps, first sample id, request time and stop count: '
                          'contiguous tail in write order, nothing >= t omitted, at most one earlier, timestamps relative to the first sample id, stop honoured' % (n, df),
                     bound='%d annotations, decimate factor %d' % (n, df),
                     assumes=['index tree and data chunk list as the writer builds them, served at the jls_core_rd_chunk seam']))
    return o
