from vlib import Obl, PORTFOLIO

TITLE = 'Signal definitions normalise to consistent, stable storage parameters'
LEVEL_TEXT = ('bounded symbolic verification of the real jls_core_signal_def_validate/align (core.c), one instance per data width and relation: '
              'all parameter values below 2^VB with entries-per-block < EMAX; full 32-bit domain for crash freedom only')
TRUSTED = ['cbmc 6.11', 'harness/c16_align.c (relations written from the property statement and format.h)', 'log_stub.c']
OUTSIDE = ['parameter values >= 2^VB for the relation queries (symbolic 32-bit division does not return; see DESIGN)',
           'entries-per-block >= EMAX (the reduce-until-fits loop is bounded by an input assumption, its bound is proved by an unwinding assertion)',
           '24-bit types: the 256-bit relation does not apply (256/24 is not integral), whole-byte relation is checked instead']
EXPLANATION = ('Each query runs the real normaliser on four symbolic parameters for one data width and asserts one relation of the property: minimums; '
               'level-1 entry covers whole bytes / a multiple of 256 bits; block holds whole entries; summary chunk holds whole blocks and whole next-level '
               'groups; idempotence (second call is the identity); zero fields take the per-width defaults. MODE_CRASH runs over the full 32-bit domain with '
               'CBMC division-by-zero and overflow checks.')

WIDTHS = [1, 4, 8, 16, 24, 32, 64]


def obligations(tier):
    o = []
    pf = PORTFOLIO
    vb = 11 if tier == 'quick' else 13
    emax = 6 if tier == 'quick' else 10
    to = 500 if tier == 'quick' else 2400
    widths = [4, 24, 32, 64] if tier == 'quick' else WIDTHS
    for bits in widths:
        for mode in ('REL_MIN', 'REL_BYTES', 'REL_BLOCK', 'REL_SUMMARY', 'IDEM'):
            o.append(Obl('%s_w%d' % (mode, bits), 'c16_align.c', units=['core.c'], defines=['MODE_%s=1' % mode, 'BITS=%d' % bits],
                         unwind=emax + 2, timeout=to, backend=pf,
                         ladder=[('VB%d_E%d' % (vb, emax), ['VB=%d' % vb, 'EMAX=%d' % emax], None, None),
                                 ('VB9_E4', ['VB=9', 'EMAX=4'], None, 6)],
                         desc='relation %s of the normalised definition, width %d' % (mode, bits),
                         bound='parameters < 2^VB, entries-per-block < EMAX (rung label)',
                         assumes=['all four parameters non-zero (zero handled by DEFAULTS)', 'max(spd,10) <= (EMAX-1)*max(sdf,10)']))
    for bits in WIDTHS:
        o.append(Obl('DEFAULTS_w%d' % bits, 'c16_align.c', units=['core.c'], defines=['MODE_DEFAULTS=1', 'DEFAULTS_FIXED=1', 'BITS=%d' % bits, 'EMAX=67'],
                     unwind=69, timeout=to,
                     desc='any non-empty subset of the four fields zero (the others at their default): result is the normalised per-width default tuple, '
                          'annotation/utc factors non-zero; width %d' % bits,
                     bound='zero-mask symbolic (15 subsets); non-zero fields fixed at the default'))
    for bits in ([32] if tier == 'quick' else [1, 8, 24, 32, 64]):
        o.append(Obl('CRASH_w%d' % bits, 'c16_align.c', units=['core.c'], defines=['MODE_CRASH=1', 'BITS=%d' % bits, 'EMAX=4'],
                     unwind=6, timeout=to, backend=pf + ['z3'],
                     desc='full 32-bit parameter domain: no division by zero / wrap to zero, loop bounded, accepted definitions have non-zero factors; width %d' % bits,
                     bound='all 2^128 parameter tuples with entries-per-block < 4 (input assumption)'))
    if tier == 'thorough':
        for bits in [8, 32]:
            o.append(Obl('DEFAULTS_sym_w%d' % bits, 'c16_align.c', units=['core.c'], defines=['MODE_DEFAULTS=1', 'BITS=%d' % bits, 'EMAX=67'],
                         unwind=69, timeout=to, backend=pf, tiers=('thorough',),
                         ladder=[('VB8', ['VB=8'], None, None)],
                         desc='zero fields take the per-width defaults with the other fields symbolic (miter of two normalisations), width %d' % bits,
                         bound='non-zero parameters < 2^8, entries-per-block < 67'))
    return o
