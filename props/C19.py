from vlib import Obl, PORTFOLIO

TITLE = 'Repair converges and a good file is never modified by reading'
LEVEL_TEXT = ('bounded symbolic verification that the read path issues no backend write: raw layer over a symbolic image with any 3 navigation/read calls; '
              'jls_rd_open decision to enter the repair branch')
TRUSTED = ['cbmc 6.11', 'membk.c (a file opened "r" rejects writes, as O_RDONLY does)', 'crcfun.c']
OUTSIDE = ['idempotence of repair over all crash images (inherits C03)', 'whole reader sessions on real files']
EXPLANATION = ('O1: jls_raw_open("r") on a symbolic file image (closed or unclosed header, symbolic length), then three symbolic raw read/navigation calls, then close: '
               'the backend write log and truncate counter stay empty.')


def obligations(tier):
    o = []
    o.append(Obl('O1_raw_readonly', 'c04_raw.c', units=['raw.c'], stubs=['log_stub.c', 'membk.c', 'crcfun.c'], defines=['MODE_RDONLY=1', 'MEMBK_SIZE=256'],
                 unwind=130, timeout=900, backend=PORTFOLIO,
                 desc='open "r" + any 3 of 13 raw read/navigation calls + close on a symbolic 128-byte image: no write, no truncate',
                 bound='image <= 128 bytes, 3 calls'))
    return o
