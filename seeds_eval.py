#!/usr/bin/env python3
"""Run the registered checks against each seeded change.  Each seed gets its own scratch worktree of /repo HEAD
(removed afterwards) and its own build/evidence directories, so several seeds can be evaluated in parallel without
touching /repo.  (The sanctioned sequential route - git -C /repo apply; run; git -C /repo checkout -- . - gives the same
result; it was used for the spot checks noted in DESIGN.md.)"""
import json, os, subprocess, sys, glob, shutil, concurrent.futures as cf

VERIF = '/verif'
# which check (and optional --only filter) is responsible for which seed
TARGET = {
 'REG-C09-overlap': [('C09', 'OVERLAP_w4')], 'REG-C03-sourcedef-order': [('C03', 'source_def')], 'LOCAL-C12-utcfilter': [('C12', 'thorough:utc_iterate_D2_N4')], 'REG-C16-tsfactor': [('C16', 'CRASH')], 'REG-C05-prevlen': [('C05', 'empty_middle')], 'REG-C19-repair-next': [('C19', 'O3_repair')], 'REG-C19-repair-head0': [('C19', 'O3_repair')], 'REG-C09-gapfill': [('C09', 'GAP_w16')], 'REG-C01-reader-subbyte': [('C01', 'O2_reader_w4')], 'REG-C01-carry': [('C01', 'O1_packer_w4_2calls')],
 'C01-m1': [('C01', 'O3_level1')], 'C03-m1': [('C03', 'core_wr_data')], 'C03-m2': [('C03', None)], 'C01-m2': [('C15', 'w8'), ('C01', 'w8')],
 'C08-m1': [('C08', None)], 'C08-m2': [('C08', None)], 'C08-m3': [('C08', None)],
 'C09-m1': [('C09', 'OVERLAP_w8'), ('C09', 'OVERLAP_w32')], 'C09-m2': [('C09', 'GAP_w32')],
 'C10-m1': [('C01', 'O2_reader_w32'), ('C10', 'O5')], 'C10-m2': [('C12', None)],
 'C12-m1': [('C12', 'utc_seek')], 'C12-m2': [('C12', 'tick')],
 'C13-m1': [('C13', 'O2_user_data')], 'C13b-m1': [('C13', 'O1_strings')], 'C19b-m1': [('C19', 'O3_repair')], 'C19b-m2': [('C19', 'O2_rd_open')], 'C03b-m1': [('C03', None)], 'C03b-m2': [('C03', 'core_wr_data')], 'C13b-m2': [('C10', 'O1'), ('C13', 'O3_identity')], 'C13-m2': [('C13', 'O2_signal_def')],
 'C14-m1': [('C14', None)], 'C14-m2': [('C14', None)],
 'C15-m1': [('C15', 'w4'), ('C15', 'w1')], 'C15-m2': [('C15', 'O2_block')],
 'C16-m1': [('C16', 'w32'), ('C16', 'w64')], 'C16-m2': [('C16', 'REL_SUMMARY')],
 'C18-m1': [('C18', 'sw')], 'C18-m2': [('C18', 'hw')], 'C18-m3': [('C18', 'L7')],
 'C19-m1': [('C19', 'O2_rd_open')], 'C19-m2': [('C19', 'O3_repair')],
 'C20-m1': [('C20', 'ALIAS')], 'C20-m2': [('C20', 'KMM')], 'C20-m3': [('C20', 'KMM_f32')],
 'C17-m1': [('C17', None)], 'C17-m2': [('C17', None)], 'C11-m1': [('C11', 'seek')], 'C11-m2': [('C11', 'iterate')],
 'C02-m1': [('C02', None)], 'C02-m2': [('C02', 'LN')],
 'C14c-m1': [('C14', None)], 'C10c-m1': [('C04', 'O1_raw_rd_chunk'), ('C10', None)],  'C15c-m1': [('C15', 'O2_block')], 'C05c-m1': [('C05', None)],
 'C04-m1': [('C04', 'errprop')], 'C04-m2': [('C04', 'errprop')], 'C05-m1': [('C05', None)], 'C05-m2': [('C02', 'LN_two')],
}

def run_seed(sid):
    sd = os.path.join(VERIF, 'seeded', sid)
    wt = '/tmp/seedwt/' + sid
    res = {'seed': sid, 'runs': []}
    subprocess.run(['git', '-C', '/repo', 'worktree', 'remove', '--force', wt], capture_output=True)
    shutil.rmtree(wt, ignore_errors=True)
    subprocess.run(['git', '-C', '/repo', 'worktree', 'prune'], capture_output=True)
    subprocess.run(['git', '-C', '/repo', 'worktree', 'add', '-q', '--detach', wt, 'HEAD'], check=False)
    try:
        p = subprocess.run(['git', '-C', wt, 'apply', '--3way', os.path.join(sd, 'patch.diff')], capture_output=True, text=True)
        if p.returncode != 0:
            p2 = subprocess.run('cd %s && patch -p1 --fuzz=3 < %s' % (wt, os.path.join(sd, 'patch.diff')), shell=True, capture_output=True, text=True)
            if p2.returncode != 0:
                res['apply'] = 'FAILED: ' + (p.stderr + p2.stdout)[-300:]
                return res
        res['apply'] = 'ok'
        for (prop, only) in TARGET.get(sid, []):
            if not os.path.exists(os.path.join(VERIF, 'props', prop + '.py')):
                res['runs'].append({'check': prop, 'result': 'check not built'})
                continue
            env = dict(os.environ, VERIF_REPO=wt, VERIF_BUILD='/tmp/seedwt/build_' + sid, VERIF_EVIDENCE='/tmp/seedwt/ev_' + sid,
                       VERIF_REPLAYDIR='/tmp/seedwt/replay_' + sid, VERIF_JOBS='6')
            tier = 'quick'
            if only and only.startswith('thorough:'):
                tier, only = 'thorough', only.split(':', 1)[1]
            cmd = ['python3', os.path.join(VERIF, 'run.py'), prop, '--tier', tier] + (['--only', only] if only else [])
            q = subprocess.run(cmd, capture_output=True, text=True, env=env, cwd=VERIF)
            lines = [l for l in q.stdout.split('\n') if 'VIOLATION' in l or 'counterexample' in l or 'NOT DECIDED' in l or 'UNCONFIRMED' in l or ' done:' in l]
            res['runs'].append({'check': prop, 'only': only, 'exit': q.returncode, 'lines': [l[:260] for l in lines[:8]]})
            if q.returncode == 1:
                break
    finally:
        subprocess.run(['git', '-C', '/repo', 'worktree', 'remove', '--force', wt], check=False)
        for d in ('build_', 'ev_', 'replay_'):
            shutil.rmtree('/tmp/seedwt/' + d + sid, ignore_errors=True)
    res['detected'] = any(r.get('exit') == 1 for r in res['runs'])
    return res

if __name__ == '__main__':
    seeds = sys.argv[1:] or sorted(os.path.basename(d) for d in glob.glob(VERIF + '/seeded/[CR]*') if os.path.isdir(d))
    os.makedirs('/tmp/seedwt', exist_ok=True)
    out = json.load(open(VERIF + '/seeded/RESULTS.json')) if os.path.exists(VERIF + '/seeded/RESULTS.json') else {}
    with cf.ThreadPoolExecutor(max_workers=int(os.environ.get('SEED_PAR', '2'))) as ex:
        for r in ex.map(run_seed, seeds):
            out[r['seed']] = r
            print(r['seed'], 'DETECTED' if r.get('detected') else 'missed', r.get('apply'), [(x.get('check'), x.get('only'), x.get('exit', x.get('result'))) for x in r['runs']], flush=True)
            json.dump(out, open(VERIF + '/seeded/RESULTS.json', 'w'), indent=1)
