from vlib import Obl, PORTFOLIO

TITLE = 'A writer stopped at any point leaves a file that reopens to a correct prefix'
LEVEL_TEXT = ('bounded symbolic verification of the recovery scan (real jls_core_rd_chunk_end in core.c over raw.c and an in-memory backend): on the image a stopped writer leaves (complete chunks written by the real raw layer + a symbolic partial tail) the scan '
              'terminates, reports exactly the last complete chunk and does not modify the file. The end-to-end crash statement is NOT decided.')
TRUSTED = ['cbmc 6.11', 'membk.c', 'crcfun.c (content-dependent checksum)', 'validity predicate of a chunk written from format.h in harness/c03_scan.c']
OUTSIDE = ['the crash quantifier end to end (which prefix the reader then exposes; the <= one-block loss bound; annotations/UTC after a crash): a symbolic crash point through the whole reader is out of reach '
           'and one run per crash point would be enumeration', 'write ordering of the individual writer operations (O1 not built)', 'pointer repair (jls_track_repair_pointers, jls_core_repair_fsr)',
           'files longer than the 1 KiB scan window: the hand-derived candidate that a valid last chunk starting exactly 1024 bytes before the aligned end is skipped is NOT confirmed by a check']
EXPLANATION = ('O2: file = unclosed file header + complete chunks written by the real jls_raw_wr (symbolic header fields and payload bytes) + a symbolic tail (length per instance, aligned or not). '
               'The real jls_raw_open("r") reports TRUNCATED; the real jls_core_rd_chunk_end must report the last complete chunk, describe it in chunk_cur and leave the file untouched. '
               'The fully symbolic variant (harness/c03_scan.c: any file tail, symbolic length) returned no verdict.')


def obligations(tier):
    o = []
    cases = [(2, 3, 5), (2, 13, 5), (2, 37, 0), (3, 0, 5)] if tier == 'quick' else [(nv, j, pl) for nv in (2, 3) for j in (0, 1, 3, 8, 13, 31, 32, 37, 45) for pl in (0, 5, 8)]
    for nv, junk, plast in cases:
        o.append(Obl('O2_scan_nv%d_junk%d_plen%d' % (nv, junk, plast), 'c03_tail.c', units=['core.c', 'raw.c', 'buffer.c'], stubs=['log_stub.c', 'membk.c', 'crcfun.c'],
                     defines=['JLS_VERIF_SIGNAL_COUNT=1', 'JLS_VERIF_SOURCE_COUNT=1', 'JLS_VERIF_FSR_BUFFER_U64=2', 'JLS_VERIF_BUF_DEFAULT_SIZE=256', 'JLS_VERIF_BUF_STRING_SIZE=16',
                              'NV=%d' % nv, 'JUNK=%d' % junk, 'PLEN_LAST=%d' % plast, 'MEMBK_SIZE=320'],
                     unwind=48, unwind_text=[('jls_core_rd_chunk', r'while \(1\)', 3), ('jls_core_rd_chunk_end', r'while \(\(end_pos > 0\)', 3)],
                     typed_calloc=True, timeout=600 if tier == 'quick' else 1800, backend=PORTFOLIO, mem_gb=16, objbits=10,
                     desc='jls_core_rd_chunk_end after a stop: %d complete chunks (last payload %d bytes) + %d symbolic bytes of the write in flight: the last complete chunk is found, file untouched' % (nv, plast, junk),
                     bound='%d chunks with symbolic header fields and payload bytes (payload lengths fixed), tail of %d symbolic bytes (file length %s)' % (nv, junk, 'unaligned' if junk % 8 else 'aligned'),
                     assumes=['no aligned position inside the tail holds a header whose checksum matches (the tail is a prefix of a write in flight, not a chunk)']))
    return o
