from vlib import Obl, PORTFOLIO

TITLE = 'Write-once: stored content is never rewritten, only links and head tables'
LEVEL_TEXT = ('bounded symbolic verification of the real file-touching writer primitives (raw.c, core.c, track.c, writer.c, buffer.c) over an in-memory backend: '
              'from a pre-state built by the real open/definition code, K symbolic operations; every in-place backend write and every changed byte is classified '
              'against the chunk map')
TRUSTED = ['cbmc 6.11', 'membk.c (write log)', 'crcfun.c', 'chunk map decoder and classification in harness/c14_writeonce.c', 'wr_ts.c / wr_fsr.c not linked (their file effects go through the primitives exercised)']
OUTSIDE = ['sequences longer than K operations from the initial state (no inductive invariant over arbitrary list tails was built)', 'the file header rewrite at close',
           'payloads longer than 24 bytes']
EXPLANATION = ('The harness opens a file with the real raw layer, writes the initial user-data chunk, source 0 and one FSR signal definition with its three track DEF/HEAD chunks, '
               'then performs K symbolic operations among jls_core_wr_data / _index / _summary, jls_wr_annotation, jls_wr_utc, jls_wr_user_data (incl. NULL payload), '
               'jls_wr_source_def and an annotation on an undefined signal. After each operation: the file did not shrink; every backend write below the previous end is a 32-byte '
               'header rewrite or a HEAD payload/footer rewrite; a symbolic watched byte that changed lies in link/crc fields of a header or in a head entry that went 0 -> existing chunk.')

HOOKS = ['JLS_VERIF_SIGNAL_COUNT=2', 'JLS_VERIF_SOURCE_COUNT=3', 'JLS_VERIF_BUF_DEFAULT_SIZE=256', 'JLS_VERIF_BUF_STRING_SIZE=64', 'JLS_VERIF_FSR_BUFFER_U64=2',
         'MEMBK_SIZE=1280', 'MEMBK_LOG=96']


def obligations(tier):
    o = []
    k = 2 if tier == 'quick' else 3
    o.append(Obl('O1_writeonce_K%d' % k, 'c14_writeonce.c', units=['raw.c', 'core.c', 'track.c', 'writer.c', 'buffer.c'], stubs=['log_stub.c', 'membk.c', 'crcfun.c'],
                 defines=HOOKS + ['KOPS=%d' % k], unwind=100, unwind_text=[('jls_crc32c', r'i < length', 160)], timeout=1500 if tier == 'quick' else 3000, backend=PORTFOLIO, mem_gb=30, objbits=10,
                 desc='%d symbolic writer operations after open + definitions: only header link/crc rewrites and 0->offset head-table updates below the old end of file' % k,
                 bound='%d operations, payload <= 24 bytes, one FSR signal, sources 0..2' % k))
    return o
