/* C04-O3: detection strength of the checksum actually computed by the library (real src/crc32c.c -> crc32c_intel_sse4.c
 * with the SDM model of the CRC32 instruction, or crc32c_sw.c with -DJLS_OPTIMIZE_CRC_DISABLE; C18 shows both equal the reference).
 * A stored codeword is (data, crc).  An alteration (d, c) of data and stored crc goes undetected iff
 *       crc(data ^ d) == stored ^ c.
 * MODE_HDR  : the 32-byte chunk header (28 data bytes + crc field), data symbolic (full 224 bits), up to 3 flipped bits anywhere
 *             in the 256-bit codeword, or one burst of <= 32 bits: never accepted.
 * MODE_PAY  : payload of symbolic length n <= NPAY (zero base word; by the additivity shown in C18 the base word is irrelevant)
 *             plus the 4 footer bytes: the same for weight <= 3 and bursts <= 32.
 */
#include "common.h"
#include "jls/format.h"
#include "crc32c.c"

#if !defined(JLS_OPTIMIZE_CRC_DISABLE) && !defined(REPLAY)
static unsigned int crc32_model(unsigned int crc, unsigned long long v, int bits) {
    for (int i = 0; i < bits; ++i) {
        unsigned int b = (crc ^ (unsigned int) (v >> i)) & 1u;
        crc = (crc >> 1) ^ (0x82F63B78u & (0u - b));
    }
    return crc;
}
unsigned int __builtin_ia32_crc32qi(unsigned int c, unsigned char v) { return crc32_model(c, v, 8); }
unsigned int __builtin_ia32_crc32hi(unsigned int c, unsigned short v) { return crc32_model(c, v, 16); }
unsigned int __builtin_ia32_crc32si(unsigned int c, unsigned int v) { return crc32_model(c, v, 32); }
unsigned long long __builtin_ia32_crc32di(unsigned long long c, unsigned long long v) { return crc32_model((unsigned int) c, v, 64); }
#endif

#ifndef NPAY
#define NPAY 24
#endif

/* apply the symbolic error pattern to a codeword of nbits bits stored little-endian bit order in cw[] */
static bool flip_pattern(uint8_t * cw, uint32_t nbits) {
#ifdef BURST
    SYM_U32(start);
    SYM_U32(pat);
    ASSUME(pat != 0 && start < nbits);
    bool any = false;
    for (unsigned i = 0; i < 32; ++i) {
        if (((pat >> i) & 1u) && (start + i) < nbits) {
            cw[(start + i) >> 3] ^= (uint8_t) (1u << ((start + i) & 7));
            any = true;
        }
    }
    return any;
#else
    SYM_U32(p1);
    SYM_U32(p2);
    SYM_U32(p3);
    SYM_U8(k);
#ifndef WMAX
#define WMAX 3
#endif
    ASSUME(k >= 1 && k <= WMAX);
    ASSUME(p1 < nbits && p2 < nbits && p3 < nbits);
    ASSUME(k < 2 || p2 != p1);
    ASSUME(k < 3 || (p3 != p1 && p3 != p2));
    cw[p1 >> 3] ^= (uint8_t) (1u << (p1 & 7));
    if (k >= 2) { cw[p2 >> 3] ^= (uint8_t) (1u << (p2 & 7)); }
    if (k >= 3) { cw[p3 >> 3] ^= (uint8_t) (1u << (p3 & 7)); }
    return true;
#endif
}

void harness(void) {
#if defined(MODE_HDR)
    static struct jls_chunk_header_s h;      /* 8-byte aligned */
    uint8_t * b = (uint8_t *) &h;
#ifdef SYMBOLIC_BASE
    SYM_BYTES(b, 28, "hdr");
#endif
    h.crc32 = jls_crc32c_hdr(&h);            /* a correctly written header */
    bool changed = flip_pattern(b, 256);
    ASSUME(changed);
    CHECK(jls_crc32c_hdr(&h) != h.crc32, "an altered chunk header (<=3 flipped bits / one burst <=32) is never accepted");
#elif defined(MODE_PAY)
    static uint64_t store[(NPAY + 4 + 7) / 8 + 1];
    uint8_t * b = (uint8_t *) store;
    SYM_U32(n);
    ASSUME(n >= 1 && n <= NPAY);
    uint32_t crc = jls_crc32c(b, n);
    b[n + 0] = (uint8_t) crc; b[n + 1] = (uint8_t) (crc >> 8); b[n + 2] = (uint8_t) (crc >> 16); b[n + 3] = (uint8_t) (crc >> 24);
    bool changed = flip_pattern(b, (n + 4) * 8);
    ASSUME(changed);
    uint32_t stored = ((uint32_t) b[n]) | (((uint32_t) b[n + 1]) << 8) | (((uint32_t) b[n + 2]) << 16) | (((uint32_t) b[n + 3]) << 24);
    CHECK(jls_crc32c(b, n) != stored, "an altered payload+CRC (<=3 flipped bits / one burst <=32) is never accepted");
#else
#error "no MODE"
#endif
    WITNESS_END();
}
