from vlib import Obl, PORTFOLIO

TITLE = 'CRC-32C is computed correctly for every length, alignment and code path'
LEVEL_TEXT = ('bounded symbolic verification of the real crc32c_sw.c and crc32c_intel_sse4.c (through src/crc32c.c) against a bit-serial '
              'reference: table lemmas over all entries, GF(2) spanning-set equivalence for all alignments 0..7 and lengths <= MAXN, '
              'full-symbolic equivalence for short lengths; the step from spanning set to all data is the stated linearity argument')
TRUSTED = ['cbmc 6.11', 'bit-serial reference in harness/c18_crc.c', 'model of the SSE4.2 CRC32 instruction (Intel SDM) in harness/c18_crc.c',
           'paper inference: two GF(2)-affine maps that agree at 0 and on a spanning set are equal; the implementation is affine in the data because '
           'it is composed of XOR and lookups in tables proved additive (sw) / of the linear CRC32 instruction (hw)']
OUTSIDE = ['lengths above MAXN (64 thorough / 24 quick): the loop structure does not change beyond 16+7+7 bytes but this is not proved',
           'the ARM NEON unit (not built on this platform)', 'run-time CPU dispatch does not exist: the unit is chosen at compile time by src/crc32c.c',
           'CBMC pointer-to-integer semantics: alignment is the offset inside an 8-byte aligned object']
EXPLANATION = ('Each query pulls the real implementation into the harness TU via the real dispatch unit src/crc32c.c. L1 tables / L4 additivity: '
               'all 8x256 entries (x, y symbolic). SPAN: for every alignment off<8 and every length n<=MAXN, buffers that are zero except one symbolic '
               'byte at a symbolic position (and the all-zero buffer) give the reference CRC, for both the table-driven and the SSE4.2 unit. FULL: all '
               'bytes symbolic for n<=NFULL. HDR: header variant == general function over 28 bytes == reference. A monolithic symbolic-data equivalence '
               'was measured not to return (8-byte body > 300 s on five back ends), hence the decomposition.')

SW = ['JLS_OPTIMIZE_CRC_DISABLE=1', 'C18_SW=1']
HW = ['C18_HW=1']
UN_SW = ['crc32c.c -> crc32c_sw.c (included into the harness TU)']
UN_HW = ['crc32c.c -> crc32c_intel_sse4.c (included into the harness TU)']


def obligations(tier):
    o = []
    maxn = 24 if tier == 'quick' else 64
    nfull = 2 if tier == 'quick' else 4
    pf = PORTFOLIO

    def mk(name, mode, impl, unwind, timeout, desc, extra=(), bound='', ladder=None, backend=None):
        d = (SW if impl == 'sw' else HW) + [mode] + list(extra)
        ob = Obl(name, 'c18_crc.c', units=[], defines=d, unwind=unwind, timeout=timeout, desc=desc, bound=bound,
                 flags=['-msse4.2'] if False else [], ladder=ladder, backend=backend,
                 native_defs=[])
        ob.units_note = UN_SW if impl == 'sw' else UN_HW
        return ob

    o.append(mk('L1_tables_sw', 'MODE_TABLES=1', 'sw', 10, 120, 'all 8x256 slicing-table entries against the bit-serial register', bound='exhaustive in x (8 bits)'))
    o.append(mk('L4_additive_sw', 'MODE_ADDITIVE=1', 'sw', 10, 120, 'all 8 tables GF(2)-additive for all x,y', bound='exhaustive in x,y (16 bits)'))
    for impl in ('sw', 'hw'):
        hwmin = 66 if impl == 'hw' else 0   # crc32_model unrolls 64 bits
        lad = [('n<=%d' % maxn, ['MAXN=%d' % maxn], None, max(maxn + 9, hwmin)), ('n<=16', ['MAXN=16'], None, max(25, hwmin))]
        o.append(mk('L6_span_%s' % impl, 'MODE_SPAN=1', impl, maxn + 9, 600 if tier == 'quick' else 1800,
                    'real jls_crc32c == reference for all alignments and lengths on the GF(2) spanning set', ladder=lad,
                    bound='off<8, n<=MAXN, one set bit at a symbolic byte/bit position + all-zero buffer', backend=pf))
        lad = [('n<=%d' % nfull, ['NFULL=%d' % nfull], None, None), ('n<=1', ['NFULL=1'], None, None)]
        o.append(mk('L6_full_%s' % impl, 'MODE_FULL=1', impl, max(12, hwmin), 600 if tier == 'quick' else 1800,
                    'real jls_crc32c == reference with all data bytes symbolic (short lengths)', ladder=lad,
                    bound='off<8, n<=NFULL', backend=pf))
        o.append(mk('L7_hdr_%s' % impl, 'MODE_HDR=1', impl, max(40, hwmin), 600, 'jls_crc32c_hdr == jls_crc32c(.,28) == reference on the spanning set; crc field ignored',
                    bound='28 byte positions x 8 bit positions + all-zero, crc field symbolic', backend=pf))
    o.append(mk('L7_hdrfull_hw', 'MODE_HDRFULL=1', 'hw', 66, 600, 'jls_crc32c_hdr == jls_crc32c(.,28) with all 32 header bytes symbolic (hw: u64/u32 steps vs byte/u64 loops)',
                bound='all 2^256 headers', backend=pf))
    o.append(mk('L7_hdrfull_sw', 'MODE_HDRFULL=1', 'sw', 40, 600, 'jls_crc32c_hdr == jls_crc32c(.,28) with all 32 header bytes symbolic (sw: same kernel)',
                bound='all 2^256 headers', backend=pf))
    return o
