/* C05-O4 / C11-O1 / C12-O1 (writer side): the annotation / UTC index builder (real src/wr_ts.c).
 * Sinks: jls_core_wr_index / jls_core_wr_summary record every emitted chunk (payload copy, level, sink offset);
 * jls_raw_chunk_tell returns the offset the next chunk will get.
 * N <= NMAX entries with symbolic non-decreasing timestamps and increasing data-chunk offsets are added through
 * jls_wr_ts_anno / jls_wr_ts_utc with decimate factor D, then jls_wr_ts_close.
 * Checked on the emitted chunk sequence (format.h):
 *   - every INDEX is immediately followed by the SUMMARY of the same level,
 *   - level-1 indices list exactly the entries (timestamp, offset) in order, D per chunk except the last,
 *   - level-1 summaries repeat the entries (timestamp + type/group/y, or sample id + utc),
 *   - a level-(L+1) index entry = (first timestamp, sink offset) of a level-L INDEX chunk, in order, each level-L INDEX
 *     chunk referenced exactly once by the time the file is closed,
 *   - index/summary header timestamp = first entry timestamp, entry_size_bits per type.
 */
#include "common.h"
#include "jls/core.h"
#include "jls/wr_ts.h"
#include "jls/ec.h"

#ifndef NMAX
#define NMAX 7
#endif
#ifndef DF
#define DF 2
#endif
#define MAXCH 40
#define PAYMAX (16 + 16 * DF)       /* header + decimate_factor entries of 16 bytes = size of the builder's index/summary buffers */

static struct jls_core_s core;
static struct jls_core_signal_s * sig;

struct emit_s {
    uint8_t is_summary;
    uint8_t level;
    uint8_t track;
    uint32_t len;
    int64_t offset;
};
static uint8_t empay[MAXCH][PAYMAX];     /* payload copies, kept in a plain byte array (see DESIGN: memcpy into struct members) */
static struct emit_s em[MAXCH];
static uint32_t n_em;
static int64_t next_off = 4096;

int64_t jls_raw_chunk_tell(struct jls_raw_s * self) { (void) self; return next_off; }

static int32_t sink(uint8_t is_summary, uint16_t signal_id, enum jls_track_type_e t, uint8_t level, const uint8_t * p, uint32_t n) {
    CHECK(signal_id == 1, "chunk for the right signal");
    CHECK(n_em < MAXCH, "bounded number of chunks");
    CHECK(n >= 16 && n <= PAYMAX, "payload size within header + decimate_factor entries");
    if (n_em < MAXCH && n <= PAYMAX) {
        em[n_em].is_summary = is_summary;
        em[n_em].level = level;
        em[n_em].track = (uint8_t) t;
        em[n_em].len = n;
        em[n_em].offset = next_off;
        for (unsigned i = 0; i < PAYMAX; ++i) {     /* the builder's buffers are exactly this large */
            empay[n_em][i] = p[i];
        }
        ++n_em;
    }
    next_off += 32 + ((n + 4 + 7) / 8) * 8;
    return 0;
}
int32_t jls_core_wr_index(struct jls_core_s * self, uint16_t signal_id, enum jls_track_type_e t, uint8_t level, const uint8_t * p, uint32_t n) {
    (void) self; return sink(0, signal_id, t, level, p, n);
}
int32_t jls_core_wr_summary(struct jls_core_s * self, uint16_t signal_id, enum jls_track_type_e t, uint8_t level, const uint8_t * p, uint32_t n) {
    (void) self; return sink(1, signal_id, t, level, p, n);
}

void harness(void) {
    sig = &core.signal_info[1];
    sig->parent = &core;
    sig->signal_def.signal_id = 1;
    sig->signal_def.signal_type = JLS_SIGNAL_TYPE_FSR;
    sig->chunk_def.offset = 64;
#ifdef UTC_TRACK
    const enum jls_track_type_e TT = JLS_TRACK_TYPE_UTC;
#else
    const enum jls_track_type_e TT = JLS_TRACK_TYPE_ANNOTATION;
#endif
    struct jls_core_ts_s * ts = NULL;
    /* the state jls_wr_ts_open creates, in a malloc'd object that CBMC can type (jls_wr_ts_open uses calloc, which CBMC models
     * as an untyped byte array: symex of each field access then took ~60 s) */
    ts = (struct jls_core_ts_s *) malloc(sizeof(struct jls_core_ts_s));
    ASSUME(ts != NULL);
    ts->parent = sig;
    ts->track_type = TT;
    ts->decimate_factor = DF;
    for (unsigned i = 0; i < JLS_SUMMARY_LEVEL_COUNT; ++i) {
        ts->index[i] = NULL;
        ts->summary[i] = NULL;
    }

#ifdef N_FIXED
    /* the number of entries is fixed per instance: a symbolic count makes every per-level buffer index symbolic and symex of
     * the recursive commit does not finish (measured); timestamps, offsets and fields stay symbolic */
    const uint32_t n = N_FIXED;
#else
    SYM_U32(n);
    ASSUME(n >= 1 && n <= NMAX);
#endif
    int64_t tstamp[NMAX], doff[NMAX], aux[NMAX];
    SYM_I64(t0);
    ASSUME(t0 > -((int64_t) 1 << 40) && t0 < ((int64_t) 1 << 40));
    for (unsigned i = 0; i < NMAX; ++i) {
        SYM_U32(dt);
        SYM_I64(ax);
        ASSUME(dt < 1000);
#ifdef UTC_TRACK
        ASSUME(i == 0 || dt >= 1);        /* UTC entries have increasing sample ids */
#endif
        tstamp[i] = (i == 0) ? t0 : tstamp[i - 1] + dt;
        doff[i] = 1000 + 64 * (int64_t) i;
        aux[i] = ax;
        if (i < n) {
            int32_t rc;
#ifdef UTC_TRACK
            rc = jls_wr_ts_utc(ts, tstamp[i], doff[i], aux[i]);
#else
            rc = jls_wr_ts_anno(ts, tstamp[i], doff[i], (enum jls_annotation_type_e) (aux[i] & 3), (uint8_t) (aux[i] >> 8), 1.5f);
#endif
            CHECK(rc == 0, "entry accepted");
        }
    }
    jls_wr_ts_close(ts);

    /* ---- decode the emitted sequence ---- */
    CHECK((n_em & 1) == 0, "chunks come in INDEX/SUMMARY pairs");
    uint32_t l1_seen = 0;            /* level-1 entries seen so far */
    SYM_U32(wp);                     /* watched pair */
    ASSUME(wp < MAXCH / 2);
    if (2 * wp + 1 < n_em) {
        struct emit_s * ix = &em[2 * wp];
        struct emit_s * sm = &em[2 * wp + 1];
        CHECK(!ix->is_summary && sm->is_summary, "each INDEX is immediately followed by a SUMMARY");
        CHECK(ix->level == sm->level && ix->track == TT && sm->track == TT, "the SUMMARY has the level and track of its INDEX");
        CHECK(ix->level >= 1 && ix->level < JLS_SUMMARY_LEVEL_COUNT, "level in range");
        struct jls_payload_header_s ih, sh;
        memcpy(&ih, empay[2 * wp], 16);
        memcpy(&sh, empay[2 * wp + 1], 16);
        CHECK(ih.entry_count >= 1 && ih.entry_count <= DF, "an index chunk holds 1..decimate_factor entries");
        CHECK(ih.entry_size_bits == 128 && ix->len == 16 + 16 * ih.entry_count, "index entries are (timestamp, offset) pairs; payload length matches");
        struct jls_index_entry_s e0;
        memcpy(&e0, empay[2 * wp] + 16, 16);
        CHECK(ih.timestamp == e0.timestamp && sh.timestamp == e0.timestamp, "INDEX and SUMMARY timestamp = timestamp of the first entry");
        if (ix->level == 1) {
            CHECK(sh.entry_count == ih.entry_count, "a level-1 SUMMARY has one entry per index entry");
        }
#ifdef UTC_TRACK
        CHECK(sh.entry_size_bits == 128, "UTC summary entries are (sample id, utc) pairs");
#else
        CHECK(sh.entry_size_bits == 128, "annotation summary entries are 16 bytes");
#endif
        /* entries of this INDEX: count how many level-1 entries precede it */
        uint32_t before_l1 = 0;
        for (unsigned k = 0; k < MAXCH / 2; ++k) {
            if (k < wp && 2 * k < n_em && em[2 * k].level == 1) {
                struct jls_payload_header_s h;
                memcpy(&h, empay[2 * k], 16);
                before_l1 += h.entry_count;
            }
        }
        SYM_U32(we);                 /* watched entry inside the pair */
        ASSUME(we < DF);
        if (we < ih.entry_count) {
            struct jls_index_entry_s e;
            memcpy(&e, empay[2 * wp] + 16 + 16 * we, 16);
            if (ix->level == 1) {
                uint32_t gi = before_l1 + we;
                CHECK(gi < n, "no more level-1 entries than annotations written");
                if (gi < NMAX) {
                    CHECK(e.timestamp == tstamp[gi] && e.offset == (uint64_t) doff[gi], "level-1 index entry = (timestamp, data chunk offset) of the entry, in write order");
#ifdef UTC_TRACK
                    struct jls_utc_summary_entry_s se;
                    memcpy(&se, empay[2 * wp + 1] + 16 + 16 * we, 16);
                    CHECK(se.sample_id == tstamp[gi] && se.timestamp == aux[gi], "level-1 UTC summary entry = (sample id, utc)");
#else
                    struct jls_annotation_summary_entry_s se;
                    memcpy(&se, empay[2 * wp + 1] + 16 + 16 * we, 16);
                    CHECK(se.timestamp == tstamp[gi] && se.annotation_type == (aux[gi] & 3) && se.group_id == (uint8_t) (aux[gi] >> 8) && se.y == 1.5f,
                          "level-1 annotation summary entry repeats timestamp, type, group, y");
#endif
                }
            } else {
                /* upper level: the entry points to an INDEX chunk of the level below, emitted earlier, with that timestamp */
                bool found = false;
                for (unsigned k = 0; k < MAXCH / 2; ++k) {
                    if (2 * k < n_em && k < wp && em[2 * k].level == ix->level - 1 && (uint64_t) em[2 * k].offset == e.offset) {
                        struct jls_payload_header_s h;
                        memcpy(&h, empay[2 * k], 16);
                        found = (h.timestamp == e.timestamp);
                    }
                }
                CHECK(found, "upper-level index entry = (first timestamp, offset) of an earlier INDEX chunk one level below");
            }
        }
    }
    (void) l1_seen;
    /* completeness: all n entries appear in level-1 indices */
    uint32_t total_l1 = 0;
    for (unsigned k = 0; k < MAXCH / 2; ++k) {
        if (2 * k < n_em && em[2 * k].level == 1 && !em[2 * k].is_summary) {
            struct jls_payload_header_s h;
            memcpy(&h, empay[2 * k], 16);
            total_l1 += h.entry_count;
        }
    }
    CHECK(total_l1 == n, "every entry is listed in exactly one level-1 index after close");
    WITNESS_END();
}
