/* CBMC build only: gcc's type-generic isfinite() expands to __builtin_isfinite, for which CBMC has no model (it would be an
 * unconstrained function).  IEEE semantics: finite = neither infinite nor NaN.  Part of the environment model. */
#ifndef REPLAY
int __builtin_isfinite(double x) { return __CPROVER_isfinited(x); }
#else
typedef int verif_fp_stub_unused;
#endif
