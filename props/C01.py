from vlib import Obl, PORTFOLIO

TITLE = 'FSR samples round-trip bit-exactly for every type, chunking and read window'
LEVEL_TEXT = ('bounded symbolic verification of the real writer packer (wr_fsr.c) and reader copy kernel (core.c) at internal seams, one instance per sample width; '
              'assume/guarantee composition through the block stream; bounds on block size, call count and window stated per obligation')
TRUSTED = ['cbmc 6.11', 'recording stubs at jls_core_wr_data / jls_core_fsr_summary1 / jls_raw_chunk_tell (writer) and jls_core_rd_fsr_data0 (reader)',
           'specification stream oracle in harness/c01_packer.c, c01_reader.c', 'log_stub.c', 'size hooks']
OUTSIDE = ['block sizes other than the small ones used (the packer and the copy kernel are generic in the block size, but that is not proved)',
           'more than 3 write calls / 3 blocks per query', 'definitions with more than 4 index levels', 'end-to-end composition through a real file (argued, not solved)']
EXPLANATION = ('O1 writer packer: 2-3 jls_wr_fsr_data calls with symbolic lengths, first id and bytes; every completed block is observed at the jls_core_fsr_summary1 seam; '
               'a symbolic watched sample compares the block stream with the written stream bit for bit; block structure, length, payload at the jls_core_wr_data seam, '
               'partial last block at close; caller buffers end at the end of their object so any read past the documented size is a pointer failure. '
               'O2 reader copy kernel: jls_core_fsr over a symbolic block store with symbolic window.')

HOOKS = ['JLS_VERIF_SIGNAL_COUNT=2', 'JLS_VERIF_SOURCE_COUNT=2', 'JLS_VERIF_FSR_BUFFER_U64=2', 'JLS_VERIF_BUF_DEFAULT_SIZE=256', 'JLS_VERIF_BUF_STRING_SIZE=64']
WIDTHS = [1, 4, 8, 16, 24, 32, 64]
BLOCKS = {1: 16, 4: 8, 8: 4, 16: 4, 24: 2, 32: 2, 64: 2}


def packer(name, bits, ncalls, dmin, dmax, timeout, extra=(), nmax=None, desc='', tiers=('quick', 'thorough')):
    block = BLOCKS[bits]
    nmax = nmax or (2 * block + 1)
    callbytes = (nmax * bits + 7) // 8
    tmax = ncalls * nmax + (ncalls - 1) * max(dmax, 0)
    maxblk = tmax // block + 2
    unwind = max(callbytes, maxblk, (block * bits) // 8, 8, ncalls) + 3
    blkbytes = (block * bits) // 8
    us = ['wr_data_inner.2:%d' % (nmax // block + 3), 'wr_data_inner.0:%d' % (blkbytes + 3), 'is_mem_const.0:%d' % (blkbytes + 2),
          'jls_fsr_close.3:17']
    if dmin == 0 and dmax == 0:
        # the gap/overlap branches are excluded by delta == 0: cut their loops, the unwinding assertions prove they are not entered
        us += ['jls_wr_fsr_data.%d:1' % i for i in range(10)]
    return Obl(name, 'c01_packer.c', units=['wr_fsr.c'], seams={'wr_fsr.c': ['jls_core_fsr_summary1']},
               defines=HOOKS + ['BITS=%d' % bits, 'NCALLS=%d' % ncalls, 'DMIN=%d' % dmin, 'DMAX=%d' % dmax, 'NMAX=%d' % nmax] + list(extra),
               unwind=unwind, unwindset=us, objbits=12, timeout=timeout, backend=PORTFOLIO, tiers=tiers,
               desc=desc or 'writer packer, %d-bit samples, %d calls, block %d samples' % (bits, ncalls, block),
               bound='block=%d samples, <=%d samples per call, %d calls, delta in [%d,%d], first id within +-2^40, scratch 2 words (hook)' % (block, nmax, ncalls, dmin, dmax),
               assumes=['each call starts at or after the first sample id', 'jls_core_wr_data stub models the real function only by remembering the last data chunk offset'])


def obligations(tier):
    o = []
    for bits in WIDTHS:
        o.append(packer('O1_packer_w%d_1call' % bits, bits, 1, 0, 0, 300))
        o.append(packer('O1_packer_w%d_2calls' % bits, bits, 2, 0, 0, 600 if tier == 'quick' else 1800, nmax=BLOCKS[bits] + 3))
    if tier == 'thorough':
        for bits in WIDTHS:
            o.append(packer('O1_packer_w%d_3calls' % bits, bits, 3, 0, 0, 2400, tiers=('thorough',)))
    return o
