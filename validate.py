#!/usr/bin/env python3-vt
"""Validate MANIFEST.json and all evidence files against the schemas (python3-vt has jsonschema)."""
import json, glob, sys
import jsonschema
m = json.load(open('/verif/MANIFEST.json'))
jsonschema.validate(m, json.load(open('/root/.vp/MANIFEST.schema.json')))
es = json.load(open('/root/.vp/EVIDENCE.schema.json'))
ok = True
for c in m['checks']:
    try:
        jsonschema.validate(json.load(open(c['evidence_file'])), es)
    except Exception as e:
        ok = False
        print('EVIDENCE INVALID', c['evidence_file'], str(e)[:300])
ids = {c['property_id'] for c in m['checks']} | {n['property_id'] for n in m.get('not_applicable', [])}
props = [json.loads(l)['id'] for l in open('/verif/properties.jsonl')]
missing = [p for p in props if p not in ids]
print('manifest ok; claimed', sorted(c['property_id'] for c in m['checks']), 'missing', missing)
sys.exit(0 if ok and not missing else 1)
