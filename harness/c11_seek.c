/* C11-O2 / C12-O1 (reader side): seek completeness of the real jls_core_ts_seek (src/core.c) over an index tree that
 * satisfies the file invariant established by the builder (C11-O1): N entries (fixed per instance) with symbolic
 * non-decreasing timestamps, decimate factor D; level-1 index chunks list (timestamp, data chunk offset), level-(L+1) chunks
 * list (first timestamp, offset) of the level-L chunks, the head table points to the single top-level chunk.
 * Seam: jls_raw_chunk_seek / jls_core_rd_chunk / jls_raw_chunk_tell serve the chunks from harness arrays.
 * The seek time t is symbolic.  After jls_core_ts_seek(level 0) the position is the data chunk of some entry k; iterating
 * from k along item_next (= k, k+1, ...) must deliver every entry with timestamp >= t and at most one entry earlier than t.
 * With SEEK_LEVEL1 (UTC): the position is a level-1 INDEX chunk; every entry with timestamp >= t lies in it or in a later one.
 */
#include "common.h"
#include "jls/core.h"
#include "jls/reader.h"
#include "jls/ec.h"

#ifndef N_FIXED
#define N_FIXED 7
#endif
#ifndef DF
#define DF 2
#endif
#define MAXL 4
#define MAXC 10          /* max chunks per level */

static struct jls_core_s core;
static int64_t ts[N_FIXED];
/* level l (1..nlev): cnt[l] chunks, chunk c covers entries/children [c*DF, ...) */
static uint32_t cnt[MAXL + 1];
static uint32_t nlev;
static int64_t pos;
static uint32_t n_reads;

#define DATA_OFF(i)      (100000 + 64 * (int64_t) (i))
#define IDX_OFF(l, c)    (1000 * (int64_t) (l) + 16 * (int64_t) (c) + 8)

static int64_t first_ts(uint32_t l, uint32_t c) {       /* first timestamp covered by chunk c of level l */
    uint32_t span = 1;
    for (uint32_t k = 1; k < MAXL; ++k) { if (k < l) { span *= DF; } }
    uint32_t i = c * DF * span;
    return ts[i < N_FIXED ? i : N_FIXED - 1];
}

int64_t jls_raw_chunk_tell(struct jls_raw_s * self) { (void) self; return pos; }
int32_t jls_raw_chunk_seek(struct jls_raw_s * self, int64_t offset) { (void) self; if (offset <= 0) { return JLS_ERROR_IO; } pos = offset; return 0; }

#ifdef MODE_UTC_ITERATE
/* jls_core_utc walks the level-1 INDEX chunks (header only), steps to the SUMMARY chunk that follows each, and hands its entries out */
#define SUM_OF(c) (IDX_OFF(1, c) + 4)
int32_t jls_raw_rd_header(struct jls_raw_s * self, struct jls_chunk_header_s * hdr) {
    (void) self;
    for (uint32_t c = 0; c < MAXC; ++c) {
        if (c < cnt[1] && pos == IDX_OFF(1, c)) {
            memset(hdr, 0, sizeof(*hdr));
            hdr->tag = JLS_TAG_TRACK_UTC_INDEX;
            hdr->chunk_meta = (uint16_t) ((1 << 12) | 1);
            hdr->item_next = (c + 1 < cnt[1]) ? (uint64_t) IDX_OFF(1, c + 1) : 0;
            return 0;
        }
    }
    VERIF_UNREACHABLE("iteration reads a header at a position that holds no level-1 index chunk");
    return JLS_ERROR_NOT_FOUND;
}
int32_t jls_raw_chunk_next(struct jls_raw_s * self) {
    (void) self;
    for (uint32_t c = 0; c < MAXC; ++c) {
        if (c < cnt[1] && pos == IDX_OFF(1, c)) { pos = SUM_OF(c); return 0; }
    }
    return JLS_ERROR_EMPTY;
}
#endif

int32_t jls_core_rd_chunk(struct jls_core_s * self) {
    ++n_reads;
#ifdef MODE_UTC_ITERATE
    for (uint32_t c = 0; c < MAXC; ++c) {
        if (c < cnt[1] && pos == SUM_OF(c)) {
            uint32_t n = N_FIXED - c * DF;
            if (n > DF) { n = DF; }
            struct jls_utc_summary_s * u = (struct jls_utc_summary_s *) self->buf->start;
            u->header.timestamp = ts[c * DF];
            u->header.entry_count = n;
            u->header.entry_size_bits = 128;
            u->header.rsv16 = 0;
            for (uint32_t e = 0; e < DF; ++e) {
                if (e < n) {
                    u->entries[e].sample_id = ts[c * DF + e];
                    u->entries[e].timestamp = 1000 + (int64_t) (c * DF + e);      /* identifies the entry */
                }
            }
            self->chunk_cur.offset = pos;
            self->chunk_cur.hdr.tag = JLS_TAG_TRACK_UTC_SUMMARY;
            self->chunk_cur.hdr.chunk_meta = (uint16_t) ((1 << 12) | 1);
            self->chunk_cur.hdr.payload_length = 16 + 16 * n;
            self->chunk_cur.hdr.item_next = (c + 1 < cnt[1]) ? (uint64_t) SUM_OF(c + 1) : 0;
            self->buf->length = 16 + 16 * n;
            self->buf->cur = self->buf->start;
            self->buf->end = self->buf->start + self->buf->length;
            return 0;
        }
    }
#endif
#ifdef MODE_ITERATE
    CHECK(n_reads <= MAXL + 1 + N_FIXED, "seek + iteration read a bounded number of chunks");
    for (uint32_t i = 0; i < N_FIXED; ++i) {
        if (pos == DATA_OFF(i)) {
            struct jls_annotation_s * a = (struct jls_annotation_s *) self->buf->start;
            a->timestamp = ts[i];
            a->rsv64_1 = 0;
            a->annotation_type = JLS_ANNOTATION_TYPE_USER;
            a->storage_type = JLS_STORAGE_TYPE_BINARY;
            a->group_id = (uint8_t) i;            /* identifies the entry */
            a->rsv8_1 = 0;
            a->y = 0.0f;
            a->data_size = 0;
            self->chunk_cur.offset = pos;
            self->chunk_cur.hdr.tag = JLS_TAG_TRACK_ANNOTATION_DATA;
            self->chunk_cur.hdr.chunk_meta = 1;
            self->chunk_cur.hdr.payload_length = 28;
            self->chunk_cur.hdr.item_next = (i + 1 < N_FIXED) ? (uint64_t) DATA_OFF(i + 1) : 0;
            self->buf->length = 28;
            self->buf->cur = self->buf->start;
            self->buf->end = self->buf->start + 28;
            return 0;
        }
    }
#elif defined(MODE_UTC_ITERATE)
    CHECK(n_reads <= MAXL + 1 + MAXC, "seek + iteration read a bounded number of chunks");
#else
    CHECK(n_reads <= MAXL + 1, "seek reads at most one chunk per level");
#endif
    /* which index chunk is at pos? */
    for (uint32_t l = 1; l <= MAXL; ++l) {
        for (uint32_t c = 0; c < MAXC; ++c) {
            if (l <= nlev && c < cnt[l] && pos == IDX_OFF(l, c)) {
                uint32_t below = (l == 1) ? N_FIXED : cnt[l - 1];
                uint32_t n = below - c * DF;
                if (n > DF) { n = DF; }
                struct jls_index_s * r = (struct jls_index_s *) self->buf->start;
                r->header.timestamp = first_ts(l, c);
                r->header.entry_count = n;
                r->header.entry_size_bits = 128;
                r->header.rsv16 = 0;
                for (uint32_t e = 0; e < DF; ++e) {
                    if (e < n) {
                        uint32_t child = c * DF + e;
                        r->entries[e].timestamp = (l == 1) ? ts[child] : first_ts(l - 1, child);
                        r->entries[e].offset = (uint64_t) ((l == 1) ? DATA_OFF(child) : IDX_OFF(l - 1, child));
                    }
                }
                self->chunk_cur.offset = pos;
#ifdef MODE_UTC_ITERATE
                self->chunk_cur.hdr.tag = JLS_TAG_TRACK_UTC_INDEX;
#else
                self->chunk_cur.hdr.tag = JLS_TAG_TRACK_ANNOTATION_INDEX;
#endif
                self->chunk_cur.hdr.chunk_meta = (uint16_t) ((l << 12) | 1);
                self->chunk_cur.hdr.payload_length = 16 + 16 * n;
                self->chunk_cur.hdr.item_next = (c + 1 < cnt[l]) ? (uint64_t) IDX_OFF(l, c + 1) : 0;
                self->buf->length = 16 + 16 * n;
                self->buf->cur = self->buf->start;
                self->buf->end = self->buf->start + self->buf->length;
                return 0;
            }
        }
    }
    VERIF_UNREACHABLE("seek reads a position that holds no index chunk");
    return JLS_ERROR_NOT_FOUND;
}

#ifdef MODE_ITERATE
static uint32_t n_cb;
static uint32_t first_idx = 0xffffffffu, last_idx;
static bool contiguous = true, ts_ok = true;
static int64_t sid_offset;
static uint32_t stop_after = 0xffffffffu;
static int32_t anno_cbk(void * user_data, const struct jls_annotation_s * a) {
    (void) user_data;
    uint32_t i = a->group_id;
    if (n_cb == 0) { first_idx = i; } else if (i != last_idx + 1) { contiguous = false; }
    if (i < N_FIXED && a->timestamp != ts[i] - sid_offset) { ts_ok = false; }
    last_idx = i;
    ++n_cb;
    return (n_cb >= stop_after) ? 1 : 0;
}
#endif

#ifdef MODE_UTC_ITERATE
static uint32_t n_cb, n_ent;
static uint32_t first_idx = 0xffffffffu, last_idx;
static bool contiguous = true, ids_ok = true;
static int64_t sid_offset;
static uint32_t stop_after = 0xffffffffu;
static int32_t utc_cbk(void * user_data, const struct jls_utc_summary_entry_s * utc, uint32_t size) {
    (void) user_data;
    for (uint32_t j = 0; j < DF; ++j) {
        if (j < size) {
            uint32_t i = (uint32_t) (utc[j].timestamp - 1000);
            if (n_ent == 0) { first_idx = i; } else if (i != last_idx + 1) { contiguous = false; }
            if (i < N_FIXED && utc[j].sample_id != ts[i] - sid_offset) { ids_ok = false; }
            last_idx = i;
            ++n_ent;
        }
    }
    if (size > DF) { contiguous = false; }
    ++n_cb;
    return (n_cb >= stop_after) ? 1 : 0;
}
#endif

void harness(void) {
    struct jls_core_signal_s * s = &core.signal_info[1];
    s->parent = &core;
    s->signal_def.signal_id = 1;
    s->signal_def.signal_type = JLS_SIGNAL_TYPE_FSR;
    s->chunk_def.offset = 64;
    core.buf = jls_buf_alloc();
    ASSUME(core.buf != NULL);
    SYM_I64(t0);
    ASSUME(t0 > -((int64_t) 1 << 40) && t0 < ((int64_t) 1 << 40));
    for (unsigned i = 0; i < N_FIXED; ++i) {
        SYM_U32(dt);
        ASSUME(dt < 1000);
#ifdef STRICT_INCREASING
        ASSUME(i == 0 || dt >= 1);
#endif
        ts[i] = (i == 0) ? t0 : ts[i - 1] + dt;
    }
    /* tree shape: level l has ceil(children / DF) chunks, up to a level with a single chunk; the builder may also leave one more
     * top level holding a single entry (when the level below filled exactly at close), selected symbolically */
    cnt[1] = (N_FIXED + DF - 1) / DF;
    nlev = 1;
    for (uint32_t l = 2; l <= MAXL - 1; ++l) {
        if (nlev == l - 1 && cnt[l - 1] > 1) {
            cnt[l] = (cnt[l - 1] + DF - 1) / DF;
            nlev = l;
        }
    }
    SYM_U8(extra_top);
    if (extra_top & 1) {
        cnt[nlev + 1] = 1;
        nlev = nlev + 1;
    }
#ifdef MODE_UTC_ITERATE
    enum jls_track_type_e tt = JLS_TRACK_TYPE_UTC;
#else
    enum jls_track_type_e tt = JLS_TRACK_TYPE_ANNOTATION;
#endif
    s->tracks[tt].head_offsets[0] = DATA_OFF(0);
    for (uint32_t l = 1; l <= MAXL; ++l) {
        if (l <= nlev) { s->tracks[tt].head_offsets[l] = IDX_OFF(l, 0); }
    }
    SYM_I64(t);
    ASSUME(t > -((int64_t) 1 << 41) && t < ((int64_t) 1 << 41));
#if defined(MODE_UTC_ITERATE)
    {
    /* jls_core_utc: API sample ids are file sample ids minus the signal's first sample id; entries come in batches (one per level-1 chunk) */
#ifdef SOFF_FIXED
    const int64_t soff = SOFF_FIXED;
#else
    SYM_I64(soff);
    ASSUME(soff > -((int64_t) 1 << 40) && soff < ((int64_t) 1 << 40));
#endif
    sid_offset = soff;
    s->signal_def.sample_id_offset = soff;
    SYM_U32(stop);
    ASSUME(stop >= 1);
    stop_after = stop;
    int32_t rc = jls_core_utc(&core, 1, t - soff, utc_cbk, NULL);
    CHECK(rc == 0, "iteration succeeds");
    CHECK(contiguous, "UTC entries are delivered in write order without holes or repeats");
    CHECK(ids_ok, "delivered sample ids are the written ones relative to the first sample id");
    CHECK(stop > MAXC || n_cb <= stop, "a callback that asks to stop ends the iteration");
    uint32_t k = (n_ent == 0) ? N_FIXED : first_idx;
    if (stop > MAXC) {
        CHECK(n_ent == 0 || last_idx == N_FIXED - 1, "iteration runs to the last entry");
    }
    SYM_U32(w);
    ASSUME(w < N_FIXED);
    if (ts[w] >= t) {
        CHECK(w >= k, "every entry with sample id >= the requested one is delivered");
    } else {
        CHECK(w < k, "no entry earlier than the requested sample id is delivered");
    }
    WITNESS_END();
    return;
    }
#elif defined(MODE_ITERATE)
    {
    /* the public iteration: API timestamps are file timestamps minus the signal's first sample id */
    SYM_I64(soff);
    ASSUME(soff > -((int64_t) 1 << 40) && soff < ((int64_t) 1 << 40));
    sid_offset = soff;
    s->signal_def.sample_id_offset = soff;
    SYM_U32(stop);
    ASSUME(stop >= 1);
    stop_after = stop;
    int32_t rc = jls_core_annotations(&core, 1, t - soff, anno_cbk, NULL);       /* t is the file timestamp of the request */
    CHECK(rc == 0, "iteration succeeds");
    CHECK(contiguous, "annotations are delivered in write order without holes");
    CHECK(ts_ok, "delivered timestamps are the written ones (relative to the first sample id)");
    CHECK(stop > N_FIXED || n_cb <= stop, "a callback that asks to stop ends the iteration");
    uint32_t k = (n_cb == 0) ? N_FIXED : first_idx;
    if (stop > N_FIXED) {
        CHECK(n_cb == 0 || last_idx == N_FIXED - 1, "iteration runs to the last annotation");
    }
    SYM_U32(w);
    ASSUME(w < N_FIXED);
    if (ts[w] >= t) {
        CHECK(w >= k, "every annotation with timestamp >= t is delivered (nothing omitted)");
    }
    SYM_U32(w2);
    ASSUME(w2 < N_FIXED && w2 != w);
    if (w >= k && w2 >= k) {
        CHECK(!(ts[w] < t && ts[w2] < t), "at most one delivered annotation is earlier than t");
    }
    WITNESS_END();
    return;
    }
#elif defined(SEEK_LEVEL1)
    int32_t rc = jls_core_ts_seek(&core, 1, 1, tt, t);
    CHECK(rc == 0, "seek succeeds on a non-empty track");
    uint32_t k = N_FIXED;     /* first entry of the level-1 chunk found */
    for (uint32_t c = 0; c < MAXC; ++c) { if (c < cnt[1] && pos == IDX_OFF(1, c)) { k = c * DF; } }
    CHECK(k < N_FIXED, "seek(level 1) ends on a level-1 INDEX chunk");
#else
    int32_t rc = jls_core_ts_seek(&core, 1, 0, tt, t);
    CHECK(rc == 0, "seek succeeds on a non-empty track");
    uint32_t k = N_FIXED;
    for (uint32_t i = 0; i < N_FIXED; ++i) { if (pos == DATA_OFF(i)) { k = i; } }
    CHECK(k < N_FIXED, "seek(level 0) ends on a DATA chunk");
#endif
#if !defined(MODE_ITERATE) && !defined(MODE_UTC_ITERATE)
    SYM_U32(w);
    ASSUME(w < N_FIXED);
    if (ts[w] >= t) {
        CHECK(w >= k, "no entry with timestamp >= t lies before the position found (nothing is omitted)");
    }
#ifndef SEEK_LEVEL1
    SYM_U32(w2);
    ASSUME(w2 < N_FIXED && w2 != w);
    if (k < N_FIXED && w >= k && w2 >= k) {
        CHECK(!(ts[w] < t && ts[w2] < t), "at most one delivered entry is earlier than t");
    }
#endif
    WITNESS_END();
#endif
}
