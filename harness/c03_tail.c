/* C03-O2 (reduced): the backward scan for the last complete chunk (real jls_core_rd_chunk_end in core.c, raw.c over membk, crcfun)
 * on the image a stopped writer leaves: file header (unclosed) + NV complete chunks written by the real jls_raw_wr (symbolic tags,
 * metadata, links and payload bytes; payload lengths per instance) + a tail of JUNK symbolic bytes = the prefix of the write that was
 * in flight (JUNK per instance, aligned or not, shorter or longer than a header).
 * Assumption (what "prefix of a write in flight" means): no aligned position inside the tail holds a header whose checksum matches.
 * After the scan: rc == 0, the position reported is that of the last complete chunk, chunk_cur describes it, the read buffer holds its
 * payload, and the file was not modified.
 */
#include "common.h"
#include "membk.h"
#include "jls/core.h"
#include "jls/raw.h"
#include "jls/crc32c.h"
#include "jls/ec.h"

#ifndef NV
#define NV 2
#endif
#ifndef JUNK
#define JUNK 13
#endif
#ifndef PLEN_LAST
#define PLEN_LAST 5
#endif
#define PMAXB 8

static struct jls_core_s core;

void harness(void) {
    membk_reset();
    struct jls_raw_s * raw = NULL;
    int32_t rc = jls_raw_open(&raw, "f", "w");
    ASSUME(rc == 0 && raw != NULL);
    static uint8_t pay[NV][PMAXB];
    int64_t at[NV];
    uint32_t plen[NV];
    uint8_t tags[NV];
    for (unsigned k = 0; k < NV; ++k) {
        plen[k] = (k + 1 == NV) ? PLEN_LAST : 3 * k;          /* 0, 3, ... and the last one per instance */
        SYM_BYTES(pay[k], PMAXB, "payload");
        struct jls_chunk_header_s h;
        SYM_U64(inext); SYM_U64(iprev); SYM_U8(tag); SYM_U16(meta);
        ASSUME(tag != JLS_TAG_INVALID);
        h.item_next = inext; h.item_prev = iprev; h.tag = tag; h.rsv0_u8 = 0; h.chunk_meta = meta;
        h.payload_length = plen[k]; h.payload_prev_length = 0; h.crc32 = 0;
        tags[k] = tag;
        at[k] = jls_raw_chunk_tell(raw);
        rc = jls_raw_wr(raw, &h, pay[k]);
        ASSUME(rc == 0);
    }
    int64_t end = jls_raw_chunk_tell(raw);
    /* the writer stops here: no close, no file-header update; JUNK bytes of the next write reached the file */
    CHECK(end == membk_len, "the image ends behind the last complete chunk");
    SYM_BYTES(membk_file + end, JUNK, "junk");
    membk_len = end + JUNK;
    for (int64_t q = end; q + 32 <= end + JUNK; q += 8) {
        struct jls_chunk_header_s hh;
        memcpy(&hh, membk_file + q, 32);
        ASSUME(jls_crc32c(membk_file + q, 28) != hh.crc32);
    }
    uint32_t writes_before = membk_n_writes;

    rc = jls_raw_open(&core.raw, "f", "r");
    CHECK(rc == JLS_ERROR_TRUNCATED && core.raw != NULL, "an unclosed file opens as truncated");
    ASSUME(core.raw != NULL);
    core.buf = jls_buf_alloc();
    ASSUME(core.buf != NULL);
    rc = jls_core_rd_chunk_end(&core);
    CHECK(rc == 0, "the scan finds a last chunk");
    int64_t pos = jls_raw_chunk_tell(core.raw);
    CHECK(pos == at[NV - 1], "the scan reports the last complete chunk (not an earlier one, not the tail)");
    CHECK(core.chunk_cur.offset == at[NV - 1] && core.chunk_cur.hdr.tag == tags[NV - 1] && core.chunk_cur.hdr.payload_length == PLEN_LAST, "chunk_cur describes that chunk");
    CHECK(membk_n_writes == writes_before && membk_n_truncates == 0, "the scan does not modify the file");
    WITNESS_END();
}
