/* C10-O3: the threaded writer's front end, run sequentially (real src/threaded_writer.c + msg_ring_buffer.c).
 * Not a statement about schedules (C06/C07 are not applicable): one application thread submits, then the dispatch loop is
 * run to completion in the same thread.  Stubs: locks/condvar/sleep are no-ops, the clock returns non-decreasing instants,
 * the synchronous writer (jls_wr_*) is a recording sink.  Message queue hooked to 96 bytes.
 * MODE_IDS   : jls_twr_signal_def / jls_twr_fsr with signal_id symbolic over 0..65535: no access outside the per-signal table
 *              (CBMC bounds check on fsr_entry_size_bits[256]).
 * MODE_CODEC : one message of each kind with symbolic arguments/payload, then CLOSE: the sink receives exactly the submitted
 *              arguments and bytes, in order, once.
 */
#include "common.h"
#include "jls/threaded_writer.h"
#include "jls/writer.h"
#include "jls/backend.h"
#include "jls/time.h"
#include "jls/ec.h"

struct jls_wr_s { int dummy; };
static struct jls_wr_s the_wr;
static struct { int dummy; } the_bk;
static int64_t now_;

static struct jls_twr_s * g_twr;
struct jls_bkt_s * jls_bkt_initialize(struct jls_twr_s * wr) { g_twr = wr; return (struct jls_bkt_s *) &the_bk; }
void jls_bkt_finalize(struct jls_bkt_s * self) { (void) self; jls_twr_run(g_twr); }   /* join = the thread function runs to completion */
int jls_bkt_msg_lock(struct jls_bkt_s * self) { (void) self; return 0; }
int jls_bkt_msg_unlock(struct jls_bkt_s * self) { (void) self; return 0; }
int jls_bkt_process_lock(struct jls_bkt_s * self) { (void) self; return 0; }
int jls_bkt_process_unlock(struct jls_bkt_s * self) { (void) self; return 0; }
void jls_bkt_msg_wait(struct jls_bkt_s * self) { (void) self; }
void jls_bkt_msg_signal(struct jls_bkt_s * self) { (void) self; }
void jls_bkt_sleep_ms(uint32_t duration_ms) { now_ += (int64_t) duration_ms * JLS_TIME_MILLISECOND; }
int64_t jls_now(void) { now_ += 1; return now_; }
struct jls_time_counter_s jls_time_counter(void) { struct jls_time_counter_s c = {.value = (uint64_t) (now_++), .frequency = 1000000000ull}; return c; }
const char * jls_error_code_name(int ec) { (void) ec; return "e"; }

/* recording sink */
static int n_calls, order[6];
static uint16_t g_sig[6];
static int64_t g_a[6], g_b[6];
static uint32_t g_len[6];
static uint8_t g_bytes[6][16];
static int g_t1[6], g_t2[6], g_t3[6];
static float g_y;
static void rec(int kind, uint16_t sig, int64_t a, int64_t b, const void * data, uint32_t len) {
    if (n_calls < 6) {
        order[n_calls] = kind; g_sig[n_calls] = sig; g_a[n_calls] = a; g_b[n_calls] = b; g_len[n_calls] = len;
        for (unsigned i = 0; i < 16; ++i) { g_bytes[n_calls][i] = (data && i < len) ? ((const uint8_t *) data)[i] : 0; }
    }
    ++n_calls;
}
int32_t jls_wr_open(struct jls_wr_s ** instance, const char * path) { (void) path; *instance = &the_wr; return 0; }
int32_t jls_wr_close(struct jls_wr_s * self) { (void) self; return 0; }
int32_t jls_wr_flush(struct jls_wr_s * self) { (void) self; return 0; }
int32_t jls_wr_source_def(struct jls_wr_s * self, const struct jls_source_def_s * source) { (void) self; (void) source; return 0; }
int32_t jls_wr_signal_def(struct jls_wr_s * self, const struct jls_signal_def_s * signal) { (void) self; return (signal->signal_id < JLS_SIGNAL_COUNT) ? 0 : JLS_ERROR_PARAMETER_INVALID; }
int32_t jls_wr_user_data(struct jls_wr_s * self, uint16_t chunk_meta, enum jls_storage_type_e storage_type, const uint8_t * data, uint32_t data_size) {
    (void) self; if (n_calls < 6) { g_t1[n_calls] = storage_type; } rec(1, chunk_meta, 0, 0, data, data_size); return 0;
}
int32_t jls_wr_fsr(struct jls_wr_s * self, uint16_t signal_id, int64_t sample_id, const void * data, uint32_t data_length) {
    (void) self; rec(2, signal_id, sample_id, data_length, data, data_length * 2 > 16 ? 16 : data_length * 2); return 0;
}
int32_t jls_wr_fsr_omit_data(struct jls_wr_s * self, uint16_t signal_id, uint32_t enable) { (void) self; rec(3, signal_id, enable, 0, NULL, 0); return 0; }
int32_t jls_wr_annotation(struct jls_wr_s * self, uint16_t signal_id, int64_t timestamp, float y, enum jls_annotation_type_e annotation_type,
                          uint8_t group_id, enum jls_storage_type_e storage_type, const uint8_t * data, uint32_t data_size) {
    (void) self;
    if (n_calls < 6) { g_t1[n_calls] = annotation_type; g_t2[n_calls] = group_id; g_t3[n_calls] = storage_type; }
    g_y = y;
    rec(4, signal_id, timestamp, 0, data, data_size);
    return 0;
}
int32_t jls_wr_utc(struct jls_wr_s * self, uint16_t signal_id, int64_t sample_id, int64_t utc) { (void) self; rec(5, signal_id, sample_id, utc, NULL, 0); return 0; }

void harness(void) {
    struct jls_twr_s * twr = NULL;
    ASSUME(0 == jls_twr_open(&twr, "f") && twr != NULL);
#if defined(MODE_IDS)
    SYM_U16(sid);
    struct jls_signal_def_s def;
    memset(&def, 0, sizeof(def));
    def.signal_id = sid;
    def.signal_type = JLS_SIGNAL_TYPE_FSR;
    def.data_type = JLS_DATATYPE_I16;
    def.sample_rate = 1000;
    int32_t rc = jls_twr_signal_def(twr, &def);
    CHECK((rc == 0) == (sid < JLS_SIGNAL_COUNT), "signal definition with an out-of-range id is rejected");
    int16_t smp[2] = {1, 2};
    SYM_U16(sid2);
    rc = jls_twr_fsr(twr, sid2, 0, smp, 2);
    if (sid2 >= JLS_SIGNAL_COUNT) {
        CHECK(rc != 0, "samples for an out-of-range signal id are rejected");
    }
#elif defined(MODE_CODEC)
    /* a defined 16-bit signal 3 */
    struct jls_signal_def_s def;
    memset(&def, 0, sizeof(def));
    def.signal_id = 3; def.signal_type = JLS_SIGNAL_TYPE_FSR; def.data_type = JLS_DATATYPE_I16; def.sample_rate = 1000;
    ASSUME(0 == jls_twr_signal_def(twr, &def));
    SYM_U16(meta); SYM_I64(sample_id); SYM_I64(ts); SYM_I64(utc); SYM_U32(fbits); SYM_U8(group); SYM_U32(omit);
    uint8_t ud[5], an[3];
    int16_t smp[3];
    SYM_BYTES(ud, 5, "ud"); SYM_BYTES(an, 3, "an"); SYM_BYTES(smp, 6, "smp");
    float y = verif_f32_from_bits(fbits);
    CHECK(0 == jls_twr_user_data(twr, meta, JLS_STORAGE_TYPE_BINARY, ud, 5), "user data queued");
    CHECK(0 == jls_twr_fsr(twr, 3, sample_id, smp, 3), "samples queued");
    CHECK(0 == jls_twr_fsr_omit_data(twr, 3, omit), "omit request queued");
    CHECK(0 == jls_twr_annotation(twr, 3, ts, y, JLS_ANNOTATION_TYPE_TEXT, group, JLS_STORAGE_TYPE_BINARY, an, 3), "annotation queued");
    CHECK(0 == jls_twr_utc(twr, 3, sample_id, utc), "utc queued");
    CHECK(n_calls == 0, "nothing is applied before the writer thread runs");
    /* jls_twr_close submits CLOSE and joins the writer thread; the join stub (jls_bkt_finalize) runs the real dispatch loop
     * jls_twr_run to completion in this thread */
    jls_twr_close(twr);
    CHECK(n_calls == 5, "every accepted message is applied exactly once");
    CHECK(order[0] == 1 && order[1] == 2 && order[2] == 3 && order[3] == 4 && order[4] == 5, "messages are applied in submission order");
    CHECK(g_sig[0] == (meta) && g_t1[0] == JLS_STORAGE_TYPE_BINARY && g_len[0] == 5, "user data: tag, storage type and size delivered");
    CHECK(g_sig[1] == 3 && g_a[1] == sample_id && g_b[1] == 3, "fsr: signal, sample id and count delivered");
    CHECK(g_sig[2] == 3 && g_a[2] == (int64_t) omit, "omit request delivered");
    CHECK(g_sig[3] == 3 && g_a[3] == ts && g_t1[3] == JLS_ANNOTATION_TYPE_TEXT && g_t2[3] == group && g_t3[3] == JLS_STORAGE_TYPE_BINARY && g_len[3] == 3
          && verif_f32_bits(g_y) == fbits, "annotation: all fields delivered");
    CHECK(g_sig[4] == 3 && g_a[4] == sample_id && g_b[4] == utc, "utc entry delivered");
    SYM_U32(wi);
    ASSUME(wi < 6);
    if (wi < 5) { CHECK(g_bytes[0][wi] == ud[wi], "user data bytes delivered unchanged"); }
    CHECK(g_bytes[1][wi] == ((uint8_t *) smp)[wi], "sample bytes delivered unchanged");
    if (wi < 3) { CHECK(g_bytes[3][wi] == an[wi], "annotation payload delivered unchanged"); }
    WITNESS_END();
    return;
#endif
    WITNESS_END();
}
