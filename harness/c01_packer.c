/* C01-O1 / C09 / C15-O1: the writer-side packer of FSR samples (real src/wr_fsr.c:
 * jls_fsr_open, jls_wr_fsr_data, wr_data_inner, wr_data, jls_fsr_close).
 *
 * Seams (real internal interfaces, bodies replaced by recording stubs):
 *   jls_core_fsr_summary1(self, pos)  - every completed block passes here with its content in self->data:
 *                                       the harness records the block stream (timestamp, entry_count, bytes, pos)
 *   jls_core_wr_data(...)             - the block payload handed to the file layer (absent for omitted blocks)
 *   jls_raw_chunk_tell                - returns a fresh non-zero offset
 *
 * NCALLS (2 or 3) write calls with symbolic lengths and symbolic sample bytes.  Call k+1 starts at
 * expected_next + delta_k with delta symbolic in [DMIN, DMAX]: 0 = contiguous (C01), >0 gap, <0 overlap (C09).
 * Caller buffers end exactly at the end of their object, so reading past the documented size is a pointer failure
 * (CBMC) / ASan error (replay).  Oracle = specification stream built in the harness:
 *   first-written sample wins, gap = 0 for integers / NaN for floats, length = last id + 1 - first id.
 * One symbolic watched sample index w compares the stored block stream with the specification stream bit for bit.
 */
#include "common.h"
#include "jls/core.h"
#include "jls/wr_fsr.h"
#include "jls/ec.h"

#ifndef BITS
#define BITS 4
#endif
#if BITS == 1
#define DT JLS_DATATYPE_U1
#ifndef BLOCK
#define BLOCK 16
#endif
#elif BITS == 4
#ifdef SIGNED4
#define DT JLS_DATATYPE_I4
#else
#define DT JLS_DATATYPE_U4
#endif
#ifndef BLOCK
#define BLOCK 8
#endif
#elif BITS == 8
#define DT JLS_DATATYPE_U8
#ifndef BLOCK
#define BLOCK 4
#endif
#elif BITS == 16
#define DT JLS_DATATYPE_I16
#ifndef BLOCK
#define BLOCK 4
#endif
#elif BITS == 24
#define DT JLS_DATATYPE_U24
#ifndef BLOCK
#define BLOCK 2
#endif
#elif BITS == 32
#define DT JLS_DATATYPE_F32
#define IS_FLOAT 1
#ifndef BLOCK
#define BLOCK 2
#endif
#elif BITS == 64
#define DT JLS_DATATYPE_F64
#define IS_FLOAT 1
#ifndef BLOCK
#define BLOCK 2
#endif
#endif

#ifndef NCALLS
#define NCALLS 2
#endif
#ifndef NMAX
#define NMAX (2 * BLOCK + 1)          /* max samples per call */
#endif
#ifndef DMIN
#define DMIN 0
#endif
#ifndef DMAX
#define DMAX 0
#endif
#define TMAX (NCALLS * NMAX + (NCALLS - 1) * (DMAX > 0 ? DMAX : 0))
#define BLKBYTES ((BLOCK * BITS) / 8)
#define MAXBLK (TMAX / BLOCK + 2)
#define CALLBYTES ((NMAX * BITS + 7) / 8)
#define PH (sizeof(struct jls_payload_header_s))

static struct jls_core_s core;
static struct jls_core_signal_s * sig;

struct blk_s {
    int64_t timestamp;
    uint32_t entry_count;
    uint16_t entry_size_bits;
    int64_t pos;
};
static uint8_t sdata[MAXBLK * BLKBYTES];     /* block bytes, kept apart from the struct array */
static struct blk_s stream[MAXBLK];      /* every block, as seen by summary1 */
static uint32_t n_stream;
static uint32_t n_written;               /* wr_data calls */
static int64_t last_tell;
static bool pending_written;             /* wr_data was called since the previous summary1 */
static uint32_t pending_len;
static uint8_t pending_payload[PH + BLKBYTES];

static uint64_t get_sample(const uint8_t * p, uint32_t k);
static bool omit_requested;

int64_t jls_raw_chunk_tell(struct jls_raw_s * self) {
    (void) self;
    last_tell += 64;
    return last_tell;
}

int32_t jls_core_wr_data(struct jls_core_s * self, uint16_t signal_id, enum jls_track_type_e track_type,
                         const uint8_t * payload, uint32_t payload_length) {
    CHECK(self == &core && signal_id == 1 && track_type == JLS_TRACK_TYPE_FSR, "wr_data: block goes to the right signal/track");
    CHECK(payload_length >= PH && payload_length <= PH + BLKBYTES, "wr_data: payload length within header + one block");
    CHECK(!pending_written, "wr_data: at most one data chunk per block");
    /* the payload is the writer's block buffer (exactly PH + BLKBYTES bytes) */
    memcpy(pending_payload, payload, PH + BLKBYTES);
    pending_len = payload_length;
    pending_written = true;
    ++n_written;
    /* contract of the real function: the track remembers the most recent data chunk */
    sig->tracks[JLS_TRACK_TYPE_FSR].data_head.offset = last_tell;
    return 0;
}

int32_t jls_core_fsr_summary1(struct jls_core_fsr_s * self, int64_t pos) {
    CHECK(n_stream < MAXBLK, "more blocks emitted than the sample count allows");
    if (n_stream < MAXBLK) {
        struct blk_s * b = &stream[n_stream];
        b->timestamp = self->data->header.timestamp;
        b->entry_count = self->data->header.entry_count;
        b->entry_size_bits = self->data->header.entry_size_bits;
        b->pos = pos;
        {
            const uint8_t * src = (const uint8_t *) self->data->data;
            for (unsigned i = 0; i < BLKBYTES; ++i) {
                sdata[n_stream * BLKBYTES + i] = src[i];
            }
        }
        if (pos != 0) {
            CHECK(pending_written, "summary1 got a file position but no data chunk was written for this block");
            CHECK(pos == last_tell, "summary1 position is the offset of this block's data chunk");
            struct jls_payload_header_s ph;
            memcpy(&ph, pending_payload, PH);
            CHECK(ph.timestamp == b->timestamp && ph.entry_count == b->entry_count && ph.entry_size_bits == BITS && ph.rsv16 == 0,
                  "data chunk payload header describes this block");
            CHECK(pending_len == PH + (b->entry_count * BITS + 7) / 8, "data chunk payload length = header + ceil(entries*bits/8)");
            SYM_U32(wb);
            ASSUME(wb < BLKBYTES);
            if (wb < (b->entry_count * BITS + 7) / 8) {
                CHECK(pending_payload[PH + wb] == sdata[n_stream * BLKBYTES + wb], "data chunk bytes are the block bytes");
            }
        } else {
            CHECK(!pending_written, "summary1 says omitted (pos 0) but a data chunk was written");
            CHECK(n_stream != 0, "the first block of a signal is always stored");
#if BITS > 8
            CHECK(self->write_omit_data > 1, "block omitted although omission was not requested");
#endif
        }
#ifdef OMIT_CHECK
        {
            /* C15-O1: the omission decision.  <= 8 bit: a block is omitted iff it is not the first and every sample equals
             * the first sample of the block (decided here for full blocks; a short last block may only be omitted if constant).
             * wider types: iff omission was requested before the previous block completed and it is not the first block. */
            bool omitted = (pos == 0);
#if BITS <= 8
            bool all_equal = true;
            uint64_t first = get_sample(&sdata[n_stream * BLKBYTES], 0);
            for (unsigned i = 0; i < BLOCK; ++i) {
                if (i < b->entry_count && get_sample(&sdata[n_stream * BLKBYTES], i) != first) {
                    all_equal = false;
                }
            }
            if (omitted) {
                CHECK(all_equal, "only constant blocks are omitted automatically");
            }
            if (b->entry_count == BLOCK) {
                CHECK(omitted == (all_equal && n_stream != 0), "a full block is omitted iff it is constant and not the first");
            }
#else
            CHECK(omitted == (omit_requested && n_stream != 0), "a block is omitted iff omission is in effect and it is not the first");
#endif
        }
#endif
        ++n_stream;
    }
    pending_written = false;
    return 0;
}

/* sample k (BITS wide) from a packed little-endian bit stream */
static uint64_t get_sample(const uint8_t * p, uint32_t k) {
#if BITS == 1
    return (p[k >> 3] >> (k & 7)) & 1u;
#elif BITS == 4
    return (p[k >> 1] >> ((k & 1) * 4)) & 0xfu;
#else
    uint64_t v = 0;
    for (unsigned b = 0; b < BITS / 8; ++b) {
        v |= ((uint64_t) p[k * (BITS / 8) + b]) << (8 * b);
    }
    return v;
#endif
}

static bool is_fill(uint64_t v) {
#if BITS == 32 && defined(IS_FLOAT)
    return ((v & 0x7f800000u) == 0x7f800000u) && ((v & 0x007fffffu) != 0);     /* NaN */
#elif BITS == 64 && defined(IS_FLOAT)
    return ((v & 0x7ff0000000000000ull) == 0x7ff0000000000000ull) && ((v & 0x000fffffffffffffull) != 0);
#else
    return v == 0;
#endif
}

void harness(void) {
    sig = &core.signal_info[1];
    sig->parent = &core;
    sig->signal_def.signal_id = 1;
    sig->signal_def.source_id = 0;
    sig->signal_def.signal_type = JLS_SIGNAL_TYPE_FSR;
    sig->signal_def.data_type = DT;
    sig->signal_def.sample_rate = 1000;
    sig->signal_def.samples_per_data = BLOCK;
    sig->signal_def.sample_decimate_factor = BLOCK;
    sig->signal_def.entries_per_summary = 10;
    sig->signal_def.summary_decimate_factor = 10;
    sig->chunk_def.offset = 64;
    for (unsigned t = 0; t < 4; ++t) {
        sig->tracks[t].parent = sig;
        sig->tracks[t].track_type = (uint8_t) t;
    }
    last_tell = 1024;
    struct jls_core_fsr_s * fsr = NULL;
    int32_t rc = jls_fsr_open(&fsr, sig);
    ASSUME(rc == 0 && fsr != NULL);
    sig->track_fsr = fsr;
    /* In a real session the memory right behind the scratch buffer (level[] pointers) is non-zero; level[0] is
     * documented as unused, so a non-NULL value there makes a read past the scratch visible as a non-zero fill. */
    static struct jls_core_fsr_level_s sentinel_level[2];
    fsr->level[0] = &sentinel_level[1];      /* non-zero offset: CBMC encodes a pointer as object|offset, the low bytes are the offset */
#ifdef OMIT_REQUEST
    SYM_U8(omit_at_start);
    if (omit_at_start & 1) {
        fsr->write_omit_data |= 1;      /* what jls_wr_fsr_omit_data(.., 1) does */
        omit_requested = true;
    }
#endif

    SYM_I64(id0);
    ASSUME(id0 > -((int64_t) 1 << 40) && id0 < ((int64_t) 1 << 40));

    uint32_t n[NCALLS];
    int64_t start[NCALLS];               /* start of call k relative to id0 */
    uint8_t * buf[NCALLS];
    int64_t expect = 0;                  /* expected next sample, relative to id0 */
    for (unsigned k = 0; k < NCALLS; ++k) {
        SYM_U32(nk);
        ASSUME(nk >= 1 && nk <= NMAX);
        n[k] = nk;
        int64_t delta = 0;
        if (k > 0) {
            SYM_I32(dk);
            ASSUME(dk >= DMIN && dk <= DMAX);
            delta = dk;
#ifdef KF_C09_subbyte_overlap
#if BITS < 8
            ASSUME(dk >= 0);
#endif
#endif
        }
        start[k] = expect + delta;
        ASSUME(start[k] >= 0);           /* writes before the first sample id are outside this obligation */
        /* the caller's buffer ends exactly at the end of its object */
        uint32_t nbytes = (nk * BITS + 7) / 8;
        uint8_t * obj = verif_malloc(CALLBYTES);
        SYM_BYTES(obj, CALLBYTES, "call_bytes");
        buf[k] = obj + (CALLBYTES - nbytes);
        rc = jls_wr_fsr_data(fsr, id0 + start[k], buf[k], nk);
        CHECK(rc == 0, "jls_wr_fsr_data accepts the write");
        if (start[k] + (int64_t) nk > expect) {
            expect = start[k] + (int64_t) nk;
        }
    }
    const int64_t T = expect;            /* specified length */
    jls_fsr_close(fsr);

    /* ---- structure of the block stream ---- */
    uint64_t total = 0;
    for (uint32_t b = 0; b < MAXBLK; ++b) {
        if (b < n_stream) {
            CHECK(stream[b].timestamp == id0 + (int64_t) b * BLOCK, "block timestamps step by samples_per_data from the first sample id");
            CHECK(stream[b].entry_size_bits == BITS, "block entry size is the sample width");
            if (b + 1 < n_stream) {
                CHECK(stream[b].entry_count == BLOCK, "every block but the last holds samples_per_data samples");
            } else {
                CHECK(stream[b].entry_count >= 1 && stream[b].entry_count <= BLOCK, "last block holds 1..samples_per_data samples");
            }
            total += stream[b].entry_count;
        }
    }
    CHECK((int64_t) total == T, "stored length equals last id + 1 - first id");

    /* ---- content: one symbolic watched sample ---- */
    SYM_U32(w);
    ASSUME((int64_t) w < T);
    uint64_t want = 0;
    bool want_fill = true;
    {
        /* first-written wins: the earliest call that covers w and whose part was not already covered */
        int64_t covered = 0;             /* samples [0, covered) are decided by earlier calls */
        bool decided = false;
        for (unsigned k = 0; k < NCALLS; ++k) {
            int64_t lo = start[k] > covered ? start[k] : covered;   /* first sample this call contributes */
            int64_t hi = start[k] + (int64_t) n[k];
            if (!decided && (int64_t) w < covered) {
                decided = true;          /* was gap fill between earlier calls */
            }
            if (!decided && (int64_t) w >= lo && (int64_t) w < hi) {
                want = get_sample(buf[k], (uint32_t) ((int64_t) w - start[k]));
                want_fill = false;
                decided = true;
            }
            if (hi > covered) {
                covered = hi;
            }
        }
    }
    uint32_t bi = w / BLOCK;
    CHECK(bi < n_stream, "the block holding the watched sample exists");
    if (bi < n_stream && bi < MAXBLK) {
        uint64_t got = get_sample(&sdata[bi * BLKBYTES], w % BLOCK);
        if (want_fill) {
            CHECK(is_fill(got), "gap sample is the fill value (NaN for floats, zero for integers)");
        } else {
            CHECK(got == want, "stored sample equals the written sample bit for bit");
        }
    }
    WITNESS_END();
}
