from vlib import Obl, PORTFOLIO

TITLE = 'Summaries and statistics describe exactly the samples that were written'
LEVEL_TEXT = ('bounded symbolic verification of the real per-level reductions (wr_fsr.c jls_core_fsr_summary1/summaryN, datatype.c) at the file-layer seam: min/max and NaN handling '
              'exact for arbitrary sample values per data type; index/timestamp bookkeeping')
TRUSTED = ['cbmc 6.11 IEEE-754 encoding', 'reference reduction and independent sample decoding in harness/c02_summary.c', 'small decimation factors set directly in the definition (the code is generic in them)']
OUTSIDE = ['mean and std VALUES of the entries (a bit-equality miter against the reference formula on an 8-value grid did not return in 960 s)', 'floating-point error bounds of the property ("mean exact up to the precision of stored summaries", the std interval, "average of means equals the exact mean"): '
           'sums of >= 10 terms with symbolic values do not return from any back end (see DESIGN)', 'reader-side window arithmetic of jls_core_fsr_statistics / fsr_statistics (O3 not built)',
           'decimation factors other than the small ones of the harness']
EXPLANATION = ('L1: one block of NE*SDF samples with symbolic bytes per data type; a symbolic watched level-1 entry is compared with an independent reduction over its samples: '
               'min and max exact (comparison only), non-finite samples skipped, all-non-finite -> NaN, entry width per type, index offset and timestamps. L1 GRID: mean and std bit-equal. '
               'LN: symbolic level-1 entries reduced to level 2: min of minima / max of maxima over finite-mean entries, NaN if none. '
               'two_blocks / two_chunks: successive reductions into one destination chunk: counts, index order, and which sample id the chunk carries, also after the level was written out.')

HOOKS = ['JLS_VERIF_SIGNAL_COUNT=2', 'JLS_VERIF_SOURCE_COUNT=2', 'JLS_VERIF_FSR_BUFFER_U64=2']
TYPES = {'f32': ['BITS=32'], 'f64': ['BITS=64'], 'i32': ['BITS=32', 'INT_T=1'], 'i16': ['BITS=16', 'SIGNED_T=1'], 'u16': ['BITS=16'], 'u8': ['BITS=8'], 'i8': ['BITS=8', 'SIGNED_T=1'],
         'u4': ['BITS=4'], 'i4': ['BITS=4', 'SIGNED_T=1'], 'u1': ['BITS=1']}


def obligations(tier):
    o = []
    to = 600 if tier == 'quick' else 2400
    l1 = ['f32', 'i16', 'u8', 'u4', 'u1', 'i32'] if tier == 'quick' else list(TYPES)
    for t in l1:
        sdf = 8 if t == 'u1' else 4
        o.append(Obl('L1_minmax_%s' % t, 'c02_summary.c', units=['wr_fsr.c', 'datatype.c'], stubs=['log_stub.c', 'fp_stub.c'], defines=HOOKS + TYPES[t] + ['MODE_L1=1', 'SDF=%d' % sdf, 'NE=2'],
                     unwind=2 * sdf + 4, timeout=to, backend=PORTFOLIO, unwind_text=[('harness', r'SYM_BYTES|grid_idx', 2 * sdf * 8 + 2), ('jls_core_fsr_summary1', r'idx < summaries_per', 4),
                                  ('jls_core_fsr_summary1', r'sample < self->parent->signal_def.sample_decimate_factor', sdf + 2), ('harness', r'i < SDF', sdf + 2)],
                     typed_calloc=True, flags=['--max-field-sensitivity-array-size', '1024'],
                     desc='level-1 reduction of one block, type %s: min/max exact, NaN handling, entry width, index/timestamps' % t,
                     bound='block of 2 entries x %d samples, all sample bit patterns' % sdf))
    for t in (['f32', 'f64'] if tier == 'quick' else ['f32', 'f64', 'i32', 'u8']):
        o.append(Obl('LN_minmax_%s' % t, 'c02_summary.c', units=['wr_fsr.c', 'datatype.c'], stubs=['log_stub.c', 'fp_stub.c'], defines=HOOKS + TYPES[t] + ['MODE_LN=1', 'SUMDF=3', 'NE=2'],
                     unwind=10, timeout=to, backend=PORTFOLIO, unwind_text=[('harness', r'i < NE \* SUMDF \* JLS_SUMMARY_FSR_COUNT', 27), ('jls_core_fsr_summaryN', r'SUMMARYN_BODY_TEMPLATE', 5), ('harness', r'i < SUMDF', 5)],
                     typed_calloc=True, flags=['--max-field-sensitivity-array-size', '1024'],
                     desc='level-2 reduction of 6 symbolic level-1 entries (%s summaries): min of minima, max of maxima, NaN handling, index/timestamps' % ('64-bit' if t in ('f64', 'i32') else '32-bit'),
                     bound='2 level-2 entries x 3 level-1 entries, all float bit patterns'))
    for t in (['f32'] if tier == 'quick' else ['f32', 'f64', 'u8']):
        sdf = 4
        o.append(Obl('L1_two_blocks_%s' % t, 'c02_summary.c', units=['wr_fsr.c', 'datatype.c'], stubs=['log_stub.c', 'fp_stub.c'], defines=HOOKS + TYPES[t] + ['MODE_L1=1', 'TWO_CALLS=1', 'SDF=%d' % sdf, 'NE=2'],
                     unwind=2 * sdf + 4, timeout=to, backend=PORTFOLIO, unwind_text=[('harness', r'i \* 37 \+ 11', 2 * sdf * 8 + 2), ('harness', r'SYM_BYTES|grid_idx', 2 * sdf * 8 + 2), ('jls_core_fsr_summary1', r'idx < summaries_per', 4),
                                  ('jls_core_fsr_summary1', r'sample < self->parent->signal_def.sample_decimate_factor', sdf + 2), ('harness', r'i < SDF', sdf + 2)],
                     typed_calloc=True, flags=['--max-field-sensitivity-array-size', '1024'],
                     desc='two blocks reduced into one level-1 chunk (%s): entry/index counts, index order, the chunk keeps the first block\'s sample id; after the level is written out and emptied the next chunk carries its own first sample id' % t,
                     assumes=['the write-out of a full level is emulated by what wr_summary does to the level (both entry counts = 0)'], bound='3 blocks of 2 entries x %d samples (fixed sample values), symbolic sample ids and chunk positions (second later than first)' % sdf))
        o.append(Obl('LN_two_chunks_%s' % t, 'c02_summary.c', units=['wr_fsr.c', 'datatype.c'], stubs=['log_stub.c', 'fp_stub.c'], defines=HOOKS + TYPES[t] + ['MODE_LN=1', 'TWO_CALLS=1', 'SUMDF=3', 'NE=2'],
                     unwind=10, timeout=to, backend=PORTFOLIO, unwind_text=[('harness', r'i < NE \* SUMDF \* JLS_SUMMARY_FSR_COUNT', 27), ('jls_core_fsr_summaryN', r'SUMMARYN_BODY_TEMPLATE', 5), ('harness', r'i < SUMDF', 5)],
                     typed_calloc=True, flags=['--max-field-sensitivity-array-size', '1024'],
                     desc='two level-1 chunks reduced into one level-2 chunk (%s): entry/index counts, index order, the level-2 chunk keeps the first source chunk\'s sample id; after the level is written out and emptied the next chunk carries its own' % t,
                     assumes=['the write-out of a full level is emulated by what wr_summary does to the level (both entry counts = 0)'], bound='3 source chunks of 6 entries, symbolic sample ids (second later than first)'))
    # O3 reader-side window bookkeeping (harness/c02_window.c): no verdict in 600 s -> props/_unclaimed_C02_window.txt
    # L1 mean/std bit-equality on an 8-value grid (GRID mode of the harness): no verdict in 960 s on any back end -> not claimed
    return o
