from vlib import Obl, PORTFOLIO

TITLE = 'API misuse yields error codes, never crashes, hangs or stray memory access'
LEVEL_TEXT = ('bounded symbolic verification per entry point of the real code with CBMC built-in checks (bounds, NULL/invalid pointer, division by zero, '
              'signed overflow, shifts, loop bounds) plus explicit error-code assertions; misuse classes: signal ids, definition extremes, buffers, windows')
TRUSTED = ['cbmc 6.11', 'stubs at internal interfaces named per obligation', 'log_stub.c', 'size hooks (JLS_VERIF_*) state the bound']
OUTSIDE = ['call sequences longer than the 1-3 calls of each harness', 'allocation failure', 'jls_copy end to end and the threaded writer under real threads',
           'leak freedom of whole sessions']
EXPLANATION = ('O1 gates: for every per-signal entry point, signal_id is symbolic over 0..65535 on a constructed core whose slots are symbolically '
               'defined/undefined and FSR/VSR; an id that is out of range, undefined or of the wrong type must produce a non-zero return and no access '
               'to the (NULL) per-signal state. O2 definition extremes: jls_wr_signal_def path over the full 32-bit parameter domain. O4 buffers: jls_buf_* '
               'growth with 32-byte hooks. O5: reader window arithmetic with symbolic 64-bit start/length.')

HOOKS = ['JLS_VERIF_SOURCE_COUNT=4', 'JLS_VERIF_BUF_DEFAULT_SIZE=256', 'JLS_VERIF_BUF_STRING_SIZE=64',
         'JLS_VERIF_FSR_BUFFER_U64=16', 'JLS_VERIF_F64_BUF_LENGTH_MIN=16']

ENTRIES = {1: 'jls_wr_fsr', 2: 'jls_wr_fsr_f32', 3: 'jls_wr_fsr_omit_data', 4: 'jls_wr_annotation', 5: 'jls_wr_utc', 6: 'jls_rd_fsr_length',
           7: 'jls_rd_fsr', 8: 'jls_rd_fsr_f32', 9: 'jls_rd_fsr_statistics', 10: 'jls_rd_annotations', 11: 'jls_rd_utc',
           12: 'jls_rd_sample_id_to_timestamp', 13: 'jls_rd_timestamp_to_sample_id', 14: 'jls_rd_signal', 15: 'jls_core_wr_data', 16: 'jls_core_fsr_seek'}


def obligations(tier):
    o = []
    for e, fn in ENTRIES.items():
        o.append(Obl('O1_gate_in_%s' % fn, 'c10_gates.c', units=['writer.c', 'core.c', 'reader.c', 'buffer.c'],
                     defines=HOOKS + ['JLS_VERIF_SIGNAL_COUNT=3', 'ENTRY=%d' % e], unwind=20, timeout=300, seams={'core.c': ['jls_core_rd_fsr_data0']},
                     desc='%s(signal_id in range): undefined / wrong-type id => error code, no NULL per-signal state dereferenced' % fn,
                     bound='3 signal slots (hook), every subset defined, FSR/VSR symbolic; code below the gate stubbed (raw.c, wr_fsr.c, wr_ts.c, track.c, tmap.c not linked)',
                     assumes=['slot 0 is the always-defined VSR signal as created by jls_wr_open', 'signal_id < 3 (out-of-range ids: O1_gate_out_*)']))
        o.append(Obl('O1_gate_out_%s' % fn, 'c10_gates.c', units=['writer.c', 'core.c', 'reader.c', 'buffer.c'],
                     defines=HOOKS + ['JLS_VERIF_SIGNAL_COUNT=1', 'RANGE_OUT=1', 'ENTRY=%d' % e], unwind=20, timeout=300, seams={'core.c': ['jls_core_rd_fsr_data0']},
                     desc='%s(signal_id symbolic in [COUNT, 65535]): error code and no access to the signal array' % fn,
                     bound='signal table of 1 slot (hook): every id >= 1 is out of range',
                     assumes=['signal_id >= JLS_SIGNAL_COUNT']))
    # O3 threaded-writer front end, sequential (harness/c10_twr.c): the writer object is one untyped malloc (struct + queue); CBMC ran out of memory
    # (19 GB) / crashed before a verdict -> not claimed.
    from props.C01 import reader
    for bits in ([4, 32] if tier == 'quick' else [1, 4, 8, 32, 64]):
        ob = reader('O5_window_misuse_w%d' % bits, bits, 2, 600)
        ob.defines = ob.defines + ['MODE_MISUSE=1']
        ob.desc = 'jls_core_fsr with symbolic 64-bit start/length that is NOT a window inside the signal (negative, zero, overshoot by any amount incl. 1, overflowing sums): error code, no access'
        ob.bound = 'signal of 1..%d samples; all 2^128 (start, length) pairs outside the signal' % (2 * ob.defines.count('x') + 8)
        o.append(ob)
    # O6 raw API with a caller buffer of any size (same harness as C04 O1_raw_rd_chunk: it also asserts 'accepted only if the on-disk size fits the caller's buffer'
    # and 'nothing written beyond the caller's buffer size', which is the C10 clause for jls_raw_rd / jls_raw_rd_payload; fourth-round seed C10c-m1)
    pm = 12 if tier == 'quick' else 24
    o.append(Obl('O6_raw_rd_caller_buffer', 'c04_raw.c', units=['raw.c'], stubs=['log_stub.c', 'membk.c', 'crcfun.c'], defines=['MODE_RD=1', 'PMAX=%d' % pm, 'MEMBK_SIZE=256'],
                 unwind=pm + 50, timeout=900, backend=PORTFOLIO,
                 desc='jls_raw_rd on a symbolic chunk with a symbolic caller buffer size: success only if payload + pad + crc fits the buffer, nothing written beyond it, TOO_BIG otherwise',
                 bound='payload_length <= %d (+8), symbolic file length and caller buffer size' % pm))
    return o
