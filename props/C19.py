from vlib import Obl, PORTFOLIO

TITLE = 'Repair converges and a good file is never modified by reading'
LEVEL_TEXT = ('bounded symbolic verification that the read path issues no backend write: raw layer over a symbolic image with any 3 navigation/read calls; '
              'jls_rd_open decision to enter the repair branch')
TRUSTED = ['cbmc 6.11', 'membk.c (a file opened "r" rejects writes, as O_RDONLY does)', 'crcfun.c']
OUTSIDE = ['idempotence of repair over all crash images (inherits C03)', 'whole reader sessions on real files', 'the navigation calls (next/prev/item/scan) and jls_rd_open\'s decision to enter the repair branch: the 3-call navigation harness (MODE_RDONLY in c04_raw.c) ran out of memory at 11 GB and is not claimed']
EXPLANATION = ('O1: jls_raw_open("r") on a symbolic file image, jls_raw_rd of a fully symbolic chunk, close: the backend write log and truncate counter of the in-memory backend stay empty; '
               'the same for every possible 32-byte file header. A file opened "r" rejects writes in the model exactly as O_RDONLY does, so a write attempt would also surface as an error path.')


def obligations(tier):
    o = []
    pm = 12 if tier == 'quick' else 24
    o.append(Obl('O1_open_read_close_no_write', 'c04_raw.c', units=['raw.c'], stubs=['log_stub.c', 'membk.c', 'crcfun.c'], defines=['MODE_RD=1', 'PMAX=%d' % pm, 'MEMBK_SIZE=256'],
                 unwind=pm + 50, timeout=900, backend=PORTFOLIO,
                 desc='jls_raw_open("r") + jls_raw_rd + jls_raw_close on a fully symbolic chunk image of symbolic length: the backend write log and truncate counter stay empty '
                      '(same query as C04-O1, which also asserts the read-only clause)',
                 bound='one chunk, payload <= %d (+8), symbolic file length' % pm))
    o.append(Obl('O1_open_no_write', 'c04_raw.c', units=['raw.c'], stubs=['log_stub.c', 'membk.c', 'crcfun.c'], defines=['MODE_OPEN=1', 'MEMBK_SIZE=256'],
                 unwind=40, timeout=600, backend=PORTFOLIO,
                 desc='jls_raw_open("r") (+ close) on any 32-byte file header and file length 0..40: no backend write, no truncate, whether or not the open succeeds',
                 bound='all 2^256 file headers'))
    return o
