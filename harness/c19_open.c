/* C19-O2: the real jls_rd_open / jls_rd_close (src/reader.c) enter the repair branch - reopen for append, truncate, rewrite,
 * repair pointers, rebuild summaries, append END - only if the last valid chunk of the file is not the END chunk.
 * Everything jls_rd_open calls is replaced by contract stubs that record what was invoked:
 *   jls_core_rd_chunk_end        finds the last chunk: sets chunk_cur (tag symbolic: END or something else) and the position
 *   jls_core_scan_fsr_sample_id  reads the first DATA chunk of every FSR signal: like the real function it goes through
 *                                jls_core_rd_chunk and therefore overwrites chunk_cur
 *   jls_raw_open/close, scans, fsr open/close, repair functions, truncate, raw write: recorded
 * A closed file (last chunk END) must see no call with write intent: no open in "a" mode, no truncate, no write, no repair.
 */
#include "common.h"
#include "jls/core.h"
#include "jls/reader.h"
#include "jls/raw.h"
#include "jls/backend.h"
#include "jls/track.h"
#include "jls/ec.h"

struct jls_raw_s { struct jls_bkf_s backend; };
static struct jls_raw_s the_raw;
static int n_open_r, n_open_a, n_open_w, n_close, n_truncate, n_wr, n_repair_ptr, n_repair_fsr, n_wr_end;
static uint8_t last_tag;
static bool have_fsr_data;

int32_t jls_raw_open(struct jls_raw_s ** instance, const char * path, const char * mode) {
    (void) path;
    if (mode[0] == 'r') { ++n_open_r; } else if (mode[0] == 'a') { ++n_open_a; } else { ++n_open_w; }
    *instance = &the_raw;
    return 0;
}
int32_t jls_raw_close(struct jls_raw_s * self) { (void) self; ++n_close; return 0; }
struct jls_bkf_s * jls_raw_backend(struct jls_raw_s * self) { return &self->backend; }
int32_t jls_bk_truncate(struct jls_bkf_s * self) { (void) self; ++n_truncate; return 0; }
int64_t jls_raw_chunk_tell(struct jls_raw_s * self) { (void) self; return 4096; }
int32_t jls_raw_chunk_seek(struct jls_raw_s * self, int64_t offset) { (void) self; (void) offset; return 0; }
int32_t jls_raw_wr(struct jls_raw_s * self, struct jls_chunk_header_s * hdr, const uint8_t * payload) { (void) self; (void) hdr; (void) payload; ++n_wr; return 0; }

int32_t jls_core_scan_initial(struct jls_core_s * self) { (void) self; return 0; }
int32_t jls_core_scan_sources(struct jls_core_s * self) { (void) self; return 0; }
int32_t jls_core_scan_signals(struct jls_core_s * self) {
    /* one FSR signal is defined (as the scan of a file with one signal leaves it) */
    struct jls_core_signal_s * s = &self->signal_info[1];
    s->parent = self;
    s->signal_def.signal_id = 1;
    s->signal_def.signal_type = JLS_SIGNAL_TYPE_FSR;
    s->chunk_def.offset = 64;
    /* the three track HEAD chunks an FSR signal is written with have been scanned */
    s->tracks[JLS_TRACK_TYPE_FSR].parent = s;        s->tracks[JLS_TRACK_TYPE_FSR].track_type = JLS_TRACK_TYPE_FSR;
    s->tracks[JLS_TRACK_TYPE_ANNOTATION].parent = s; s->tracks[JLS_TRACK_TYPE_ANNOTATION].track_type = JLS_TRACK_TYPE_ANNOTATION;
    s->tracks[JLS_TRACK_TYPE_UTC].parent = s;        s->tracks[JLS_TRACK_TYPE_UTC].track_type = JLS_TRACK_TYPE_UTC;
    s->tracks[JLS_TRACK_TYPE_FSR].head_offsets[0] = have_fsr_data ? 8192 : 0;
    return 0;
}
int32_t jls_core_rd_chunk(struct jls_core_s * self) {
    /* contract of the real function: the chunk at the current position becomes chunk_cur */
    self->chunk_cur.hdr.tag = JLS_TAG_TRACK_FSR_DATA;
    self->chunk_cur.offset = 8192;
    self->buf->length = 32;
    memset(self->buf->start, 0, 32);
    return 0;
}
int32_t jls_core_rd_chunk_end(struct jls_core_s * self) {
    self->chunk_cur.hdr.tag = last_tag;
    self->chunk_cur.hdr.payload_length = 0;
    self->chunk_cur.offset = 4096;
    return 0;
}
int32_t jls_core_scan_fsr_sample_id(struct jls_core_s * self) {
    /* like the real function: reads the first DATA chunk of every FSR signal that has data */
    for (uint32_t id = 1; id < JLS_SIGNAL_COUNT; ++id) {
        if (self->signal_info[id].signal_def.signal_id == id && self->signal_info[id].tracks[JLS_TRACK_TYPE_FSR].head_offsets[0]) {
            jls_core_rd_chunk(self);
        }
    }
    return 0;
}
static unsigned repaired_mask, repaired_twice;
int32_t jls_track_repair_pointers(struct jls_core_track_s * track) {
    ++n_repair_ptr;
    unsigned bit = 1u << (track->track_type & 7);
    if (repaired_mask & bit) { repaired_twice |= bit; }
    repaired_mask |= bit;
    return 0;
}
int32_t jls_core_repair_fsr(struct jls_core_s * self, uint16_t signal_id) { (void) self; (void) signal_id; ++n_repair_fsr; return 0; }
int32_t jls_core_wr_end(struct jls_core_s * self) { (void) self; ++n_wr_end; return 0; }
static struct jls_core_fsr_s fsr_objs[4];
static int n_fsr_open;
int32_t jls_fsr_open(struct jls_core_fsr_s ** instance, struct jls_core_signal_s * parent) {
    struct jls_core_fsr_s * f = &fsr_objs[n_fsr_open < 3 ? n_fsr_open : 3];
    ++n_fsr_open;
    f->parent = parent; f->signal_length = -1;
    *instance = f;
    return 0;
}
int32_t jls_fsr_close(struct jls_core_fsr_s * self) { (void) self; return 0; }
void jls_core_f64_buf_free(struct jls_core_f64_buf_s * buf) { (void) buf; }

void harness(void) {
    SYM_U8(tag);
    SYM_U8(fsrdata);
    last_tag = tag;
    have_fsr_data = (fsrdata & 1) != 0;
    struct jls_rd_s * rd = NULL;
    int32_t rc = jls_rd_open(&rd, "f");
    CHECK(rc == 0 && rd != NULL, "open succeeds when every step succeeds");
    bool wrote = (n_open_a != 0) || (n_open_w != 0) || (n_truncate != 0) || (n_wr != 0) || (n_repair_ptr != 0) || (n_repair_fsr != 0) || (n_wr_end != 0);
    if (tag == JLS_TAG_END) {
        CHECK(!wrote, "a properly closed file (last chunk END) is opened without any call that modifies it");
        CHECK(n_open_r == 1, "a closed file is opened read-only exactly once");
    } else {
        CHECK(n_open_a == 1 && n_truncate == 1 && n_wr_end == 1, "an unclosed file is repaired: append mode, truncate after the last complete chunk, END appended");
        CHECK(n_open_r == 2, "after the repair the file is reopened read-only");
        CHECK(repaired_mask == ((1u << JLS_TRACK_TYPE_FSR) | (1u << JLS_TRACK_TYPE_ANNOTATION) | (1u << JLS_TRACK_TYPE_UTC)),
              "the pointers of every track of the signal (FSR, annotation, UTC) are repaired");
    }
    if (rd) {
        jls_rd_close(rd);
    }
    WITNESS_END();
}
