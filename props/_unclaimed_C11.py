from vlib import Obl, PORTFOLIO

TITLE = 'Annotations round-trip in order and seeking by timestamp omits nothing'
LEVEL_TEXT = ('bounded symbolic verification of the real annotation index builder (wr_ts.c) at the file-layer seam: every annotation is listed exactly once, in write order, in the '
              'level-1 indices, INDEX/SUMMARY pairs are adjacent, upper-level entries reference the indices below with their first timestamp')
TRUSTED = ['cbmc 6.11', 'recording sinks at jls_core_wr_index / jls_core_wr_summary / jls_raw_chunk_tell', 'decoder clauses from format.h in harness/c11_ts.c']
OUTSIDE = ['seek completeness of jls_core_ts_seek / jls_core_annotations over a store (O2 not built: reader side is not decided)', 'payload round-trip of the annotation record itself (O3 not built)',
           'more than NMAX annotations, decimate factors other than 2/3']
EXPLANATION = ('O1: N<=NMAX annotations with symbolic non-decreasing timestamps (runs of equal timestamps included), symbolic type/group, decimate factor 2: the chunk sequence emitted by '
               'jls_wr_ts_anno + jls_wr_ts_close is decoded in the harness; a symbolic watched INDEX/SUMMARY pair and entry are compared with the written sequence.')


def obligations(tier):
    o = []
    o.append(Obl('O1_index_construction_D2', 'c11_ts.c', units=['wr_ts.c'], seams={'wr_ts.c': ['ts_free']}, defines=['JLS_VERIF_SIGNAL_COUNT=2', 'JLS_VERIF_SOURCE_COUNT=2', 'JLS_VERIF_FSR_BUFFER_U64=2', 'DF=2', 'NMAX=5'], unwind=18, unwindset=['commit:6'], unwind_text=[('harness', r'k < MAXCH / 2', 23), ('harness', r'i < NMAX', 14)], timeout=900, backend=PORTFOLIO, objbits=10, tiers=('quick', 'thorough'), desc='annotation index builder (wr_ts.c), decimate factor 2, up to 5 entries: INDEX/SUMMARY adjacency, level-1 entries in order, upper-level entries point to the indices below, header timestamps', bound='N<=5 entries, decimate factor 2 (3 levels), timestamps non-decreasing'))
    if tier == 'thorough':
        o.append(Obl('O1_index_construction_D3', 'c11_ts.c', units=['wr_ts.c'], seams={'wr_ts.c': ['ts_free']}, defines=['JLS_VERIF_SIGNAL_COUNT=2', 'JLS_VERIF_SOURCE_COUNT=2', 'JLS_VERIF_FSR_BUFFER_U64=2', 'DF=3', 'NMAX=10'], unwind=18, unwindset=['commit:6'], unwind_text=[('harness', r'k < MAXCH / 2', 23), ('harness', r'i < NMAX', 14)], timeout=3000, backend=PORTFOLIO, objbits=10, tiers=('thorough',), desc='annotation index builder (wr_ts.c), decimate factor 3, up to 10 entries: INDEX/SUMMARY adjacency, level-1 entries in order, upper-level entries point to the indices below, header timestamps', bound='N<=10 entries, decimate factor 3 (3 levels), timestamps non-decreasing'))
    return o
