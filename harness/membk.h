/* In-memory model of the file backend (jls_bk_f*): one byte array, POSIX semantics of
 * open/read/write/lseek/ftruncate as used by src/backend_posix.c, plus a write log. Trusted base. */
#ifndef VERIF_MEMBK_H_
#define VERIF_MEMBK_H_
#include <stdint.h>
#include "jls/backend.h"

#ifndef MEMBK_SIZE
#define MEMBK_SIZE 1024
#endif
#ifndef MEMBK_LOG
#define MEMBK_LOG 32
#endif

struct membk_wr_s {
    int64_t pos;        /* file offset of the write */
    uint32_t count;     /* bytes written */
    int64_t fend_before;
};

extern uint8_t membk_file[MEMBK_SIZE];
extern int64_t membk_len;              /* current file length */
extern int64_t membk_os_pos;           /* the OS file position */
extern int membk_open_count;
extern uint32_t membk_n_writes;
extern uint32_t membk_n_truncates;
extern struct membk_wr_s membk_log[MEMBK_LOG];
extern char membk_last_mode;

void membk_reset(void);
#endif
