/* Chunk-store model of the raw layer (replaces src/raw.c + backend in composition harnesses; trusted base).
 * The file is an array of chunks; chunk k lives at offset ST_BASE + ST_STRIDE*k.  The model implements the part of the
 * jls_raw_* contract that core.c / track.c / wr_fsr.c / reader.c rely on (taken from src/raw.c):
 *   jls_raw_wr            append a chunk at the end, position moves behind it
 *   jls_raw_chunk_seek    move to an offset (0 is an error)
 *   jls_raw_wr_header     rewrite the header of the chunk at the current position (appends the header if at the end)
 *   jls_raw_wr_payload    rewrite the payload of the chunk at the current position
 *   jls_raw_rd            read header + payload of the chunk at the current position, position moves to the next chunk;
 *                         EMPTY at/after the end, TOO_BIG if the caller's buffer is too small (size on disk = payload + pad + 4)
 *   jls_raw_rd_header, jls_raw_chunk_next, jls_raw_chunk_tell, jls_raw_seek_end, jls_raw_flush
 * No checksums: C04/C18 decide those.  Optional fault injection: the read with ordinal st_fault_at fails with
 * JLS_ERROR_MESSAGE_INTEGRITY (what raw.c returns for a checksum mismatch).
 */
#ifndef VERIF_RAWSTORE_H_
#define VERIF_RAWSTORE_H_
#include <stdint.h>
#include <string.h>
#include "jls/raw.h"
#include "jls/format.h"
#include "jls/ec.h"

#ifndef ST_N
#define ST_N 24
#endif
#ifndef ST_PMAX
#define ST_PMAX 144
#endif
#define ST_BASE 4096
#define ST_STRIDE 256

struct jls_raw_s { int dummy; };
static struct jls_raw_s st_raw;

static struct jls_chunk_header_s st_hdr[ST_N];
static uint8_t st_pay[ST_N][ST_PMAX];
static uint32_t st_n;               /* number of chunks */
static int64_t st_pos = ST_BASE;    /* current position */
static uint32_t st_last_payload_length;
static uint32_t st_reads;           /* ordinal of jls_raw_rd / jls_raw_rd_header calls */
static uint32_t st_fault_at = 0xffffffffu;
static uint32_t st_inplace_hdr, st_inplace_pay;

static int st_index(int64_t off) {          /* -1: not a chunk position */
    if (off < ST_BASE || ((off - ST_BASE) % ST_STRIDE) != 0) {
        return -1;
    }
    int64_t k = (off - ST_BASE) / ST_STRIDE;
    return (k < (int64_t) st_n) ? (int) k : -1;
}

static uint32_t st_on_disk(uint32_t payload_length) {
    return payload_length ? ((payload_length + 4 + 7) / 8) * 8 : 0;
}

int64_t jls_raw_chunk_tell(struct jls_raw_s * self) { (void) self; return st_pos; }
int32_t jls_raw_flush(struct jls_raw_s * self) { (void) self; return 0; }
int32_t jls_raw_seek_end(struct jls_raw_s * self) { (void) self; st_pos = ST_BASE + (int64_t) ST_STRIDE * st_n; return 0; }

int32_t jls_raw_chunk_seek(struct jls_raw_s * self, int64_t offset) {
    (void) self;
    if (offset == 0) {
        return JLS_ERROR_IO;
    }
    if (offset < 0) {
        return JLS_ERROR_IO;
    }
    st_pos = offset;
    return 0;
}

int32_t jls_raw_wr_header(struct jls_raw_s * self, struct jls_chunk_header_s * hdr) {
    (void) self;
    int64_t end = ST_BASE + (int64_t) ST_STRIDE * st_n;
    if (st_pos >= end) {
        if (st_n >= ST_N || st_pos != end) {
            return JLS_ERROR_IO;
        }
        hdr->payload_prev_length = st_last_payload_length;
        st_hdr[st_n] = *hdr;
        ++st_n;
        return 0;
    }
    int k = st_index(st_pos);
    if (k < 0) {
        return JLS_ERROR_IO;
    }
    ++st_inplace_hdr;
    st_hdr[k] = *hdr;
    return 0;
}

int32_t jls_raw_wr_payload(struct jls_raw_s * self, uint32_t payload_length, const uint8_t * payload) {
    (void) self;
    int k = st_index(st_pos);
    if (k < 0) {
        return JLS_ERROR_IO;
    }
    if (!payload_length) {
        return 0;
    }
    if (!payload || payload_length > ST_PMAX || payload_length != st_hdr[k].payload_length) {
        return JLS_ERROR_PARAMETER_INVALID;
    }
    memcpy(st_pay[k], payload, payload_length);
    if (k + 1 == (int) st_n) {
        st_last_payload_length = payload_length;
    } else {
        ++st_inplace_pay;
    }
    return 0;
}

int32_t jls_raw_wr(struct jls_raw_s * self, struct jls_chunk_header_s * hdr, const uint8_t * payload) {
    int32_t rc = jls_raw_wr_header(self, hdr);
    if (rc) {
        return rc;
    }
    if (hdr->payload_length == 0) {
        if (st_index(st_pos) < 0 || st_index(st_pos) + 1 == (int) st_n) {
            st_last_payload_length = 0;      /* raw.c: nothing written; an appended chunk without payload has payload length 0 */
        }
    } else {
        rc = jls_raw_wr_payload(self, hdr->payload_length, payload);
        if (rc) {
            return rc;
        }
    }
    st_pos = ST_BASE + (int64_t) ST_STRIDE * st_n;
    return 0;
}

int32_t jls_raw_rd_header(struct jls_raw_s * self, struct jls_chunk_header_s * hdr) {
    (void) self;
    if (hdr) {
        hdr->tag = JLS_TAG_INVALID;
    }
    int k = st_index(st_pos);
    if (k < 0) {
        return JLS_ERROR_EMPTY;
    }
    if (st_reads++ == st_fault_at) {
        return JLS_ERROR_MESSAGE_INTEGRITY;
    }
    if (hdr) {
        *hdr = st_hdr[k];
    }
    return 0;
}

int32_t jls_raw_rd(struct jls_raw_s * self, struct jls_chunk_header_s * hdr, uint32_t payload_length_max, uint8_t * payload) {
    (void) self;
    hdr->tag = JLS_TAG_INVALID;
    int k = st_index(st_pos);
    if (k < 0) {
        return JLS_ERROR_EMPTY;
    }
    if (st_reads++ == st_fault_at) {
        return JLS_ERROR_MESSAGE_INTEGRITY;
    }
    *hdr = st_hdr[k];
    if (st_on_disk(st_hdr[k].payload_length) > payload_length_max) {
        return JLS_ERROR_TOO_BIG;
    }
    memcpy(payload, st_pay[k], st_hdr[k].payload_length);
    st_pos = ST_BASE + (int64_t) ST_STRIDE * (k + 1);
    return 0;
}

int32_t jls_raw_chunk_next(struct jls_raw_s * self) {
    (void) self;
    int k = st_index(st_pos);
    if (k < 0) {
        return JLS_ERROR_EMPTY;
    }
    st_pos = ST_BASE + (int64_t) ST_STRIDE * (k + 1);
    return 0;
}

const char * jls_tag_to_name(uint8_t tag) { (void) tag; return "tag"; }

#endif
