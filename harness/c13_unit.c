/* C13-O2/O3: one definition or user-data item written by the real writer (writer.c, core.c, track.c, buffer.c) into the chunk-store
 * model of the raw layer (rawstore.h) and parsed back by the real reader-side code (jls_core_scan_sources / jls_core_scan_signals in
 * core.c, jls_core_user_data in reader.c, both through the real jls_core_rd_chunk).  One item kind per instance:
 *   MODE_SIGNAL    jls_wr_signal_def -> jls_core_scan_signals   (annotation/UTC factors and the VSR rate symbolic; ids, types, FSR rate, strings per instance)
 *   MODE_SOURCE    jls_wr_source_def -> jls_core_scan_sources   (id symbolic; strings fixed, one absent and one empty)
 *   MODE_USERDATA  jls_wr_user_data  -> jls_core_user_data      (tag and binary bytes symbolic; storage type, passed size, text length per instance)
 *   MODE_IDENTITY  duplicate source / duplicate signal / signal on an undefined source / data for an undefined signal are rejected
 *                  and write nothing
 * The list heads the reader normally obtains from jls_core_scan_initial are handed over directly (seam).
 */
#include "common.h"
#include "rawstore.h"
#include "jls/core.h"
#include "jls/raw.h"
#include "jls/writer.h"
#include "jls/reader.h"
#include "jls/wr_ts.h"
#include "jls/ec.h"

static struct jls_core_s cw, cr;
static struct jls_core_ts_s ts_a, ts_u;
static uint32_t ts_anno_df, ts_utc_df;

int32_t jls_wr_ts_anno(struct jls_core_ts_s * self, int64_t timestamp, int64_t offset, enum jls_annotation_type_e t, uint8_t g, float y) {
    (void) self; (void) timestamp; (void) offset; (void) t; (void) g; (void) y; return 0;
}
int32_t jls_wr_ts_utc(struct jls_core_ts_s * self, int64_t sample_id, int64_t offset, int64_t utc) { (void) self; (void) sample_id; (void) offset; (void) utc; return 0; }
int32_t jls_wr_ts_open(struct jls_core_ts_s ** instance, struct jls_core_signal_s * parent, enum jls_track_type_e track_type, uint32_t decimate_factor) {
    (void) parent;
    if (track_type == JLS_TRACK_TYPE_UTC) { ts_utc_df = decimate_factor; *instance = &ts_u; } else { ts_anno_df = decimate_factor; *instance = &ts_a; }
    return 0;
}
int32_t jls_wr_ts_close(struct jls_core_ts_s * self) { (void) self; return 0; }
static struct jls_core_fsr_s fsr_dummy;
int32_t jls_fsr_open(struct jls_core_fsr_s ** instance, struct jls_core_signal_s * parent) { fsr_dummy.parent = parent; *instance = &fsr_dummy; return 0; }
int32_t jls_fsr_close(struct jls_core_fsr_s * self) { (void) self; return 0; }
int32_t jls_wr_fsr_data(struct jls_core_fsr_s * self, int64_t sample_id, const void * data, uint32_t data_length) {
    (void) self; (void) sample_id; (void) data; (void) data_length;
    VERIF_UNREACHABLE("sample data accepted for a signal that is not defined");
    return 0;
}

#ifndef SRC_ID
#define SRC_ID 2
#endif
#ifndef SIG_ID
#define SIG_ID 1
#endif
#ifndef STYPE_VSR
#define STYPE_VSR 0
#endif
#ifndef DTYPE
#define DTYPE JLS_DATATYPE_I16
#endif
#ifndef IDENT_CASE
#define IDENT_CASE 0
#endif
#ifndef FSR_RATE
#define FSR_RATE 1000000u
#endif
#define UD_B 8
static int ud_n;
static uint16_t ud_meta;
static int ud_type;
static uint32_t ud_size;
static uint8_t ud_bytes[UD_B];
static int32_t ud_cbk(void * user_data, uint16_t chunk_meta, enum jls_storage_type_e storage_type, uint8_t * data, uint32_t data_size) {
    (void) user_data;
    if (ud_n == 0) {
        ud_meta = chunk_meta; ud_type = storage_type; ud_size = data_size;
        for (unsigned i = 0; i < UD_B; ++i) { ud_bytes[i] = (i < data_size) ? data[i] : 0; }
    }
    ++ud_n;
    return 0;
}

/* fixed text: symbolic characters make every strlen -- and with it every payload size and buffer position -- symbolic (no verdict);
 * the string codec itself is decided with symbolic characters in O1_strings */
static void sym_str(char * s, unsigned len, const char * nm) {
    static const char text[] = "kqxz";
    (void) nm;
    for (unsigned i = 0; i < 5; ++i) {
        s[i] = (i < len) ? text[(i + len) & 3] : 0;
    }
}

static bool str_eq(const char * a, const char * b) {    /* b may be NULL = absent = reads back empty */
    if (!a) { return false; }
    if (!b) { return a[0] == 0; }
    for (unsigned i = 0; i < 5; ++i) {
        if (a[i] != b[i]) { return false; }
        if (!a[i]) { return true; }
    }
    return true;
}

static void writer_init(void) {
    cw.buf = jls_buf_alloc();
    ASSUME(cw.buf != NULL);
    for (unsigned s = 0; s < JLS_SIGNAL_COUNT; ++s) {
        cw.signal_info[s].parent = &cw;
        for (unsigned t = 0; t < 4; ++t) {
            cw.signal_info[s].tracks[t].parent = &cw.signal_info[s];
            cw.signal_info[s].tracks[t].track_type = (uint8_t) t;
        }
    }
    cw.raw = &st_raw;
    cr.buf = jls_buf_alloc();
    ASSUME(cr.buf != NULL);
    cr.raw = &st_raw;
}

void harness(void) {
    struct jls_wr_s * wr = (struct jls_wr_s *) &cw;
    writer_init();

#if defined(MODE_SOURCE)
    char sname[5], svend[5], sver[5];
    sym_str(sname, 3, "name"); sym_str(svend, 1, "vendor"); sym_str(sver, 2, "version");
    const uint16_t src_id = SRC_ID;      /* concrete per instance: a symbolic id makes every store into the per-source table a symbolic-pointer store (symex does not finish) */
    struct jls_source_def_s src = {.source_id = src_id, .name = sname, .vendor = svend, .model = NULL, .version = sver, .serial_number = ""};
    CHECK(0 == jls_wr_source_def(wr, &src), "source definition accepted");
    CHECK(st_n == 1, "one chunk written");
    cr.source_head.offset = ST_BASE;
    CHECK(0 == jls_core_scan_sources(&cr), "sources parsed");
    struct jls_source_def_s * g = &cr.source_info[src_id].source_def;
    CHECK(g->source_id == src_id, "source found under its id");
    CHECK(str_eq(g->name, sname), "name reads back");
    CHECK(str_eq(g->vendor, svend), "vendor reads back");
    CHECK(str_eq(g->model, NULL), "absent string reads back empty");
    CHECK(str_eq(g->version, sver), "version reads back");
    CHECK(str_eq(g->serial_number, ""), "empty string reads back empty");
    SYM_U16(other);
    ASSUME(other < JLS_SOURCE_COUNT && other != src_id);
    CHECK(cr.source_info[other].source_def.name == NULL && cr.source_info[other].chunk_def.offset == 0, "no other source appears");

#elif defined(MODE_SIGNAL)
    const uint16_t src_id = SRC_ID;
    cw.source_info[src_id].chunk_def.offset = 64;      /* the source exists */
    char gname[5], gunits[5];
    sym_str(gname, 2, "name"); sym_str(gunits, 1, "units");
    SYM_U32(adf); SYM_U32(udf);
#if STYPE_VSR
    SYM_U32(rate);                                      /* VSR: any rate is accepted and stored as 0 */
#else
    const uint32_t rate = FSR_RATE;                     /* FSR: concrete per instance -- the writer's "rate == 0 -> reject" branch on a symbolic rate makes
                                                         * everything written afterwards conditional in the encoding (no verdict) */
#endif
    /* signal type and data type per instance: they select which chunks are written and the block-parameter normalisation */
    const uint8_t stype = STYPE_VSR ? JLS_SIGNAL_TYPE_VSR : JLS_SIGNAL_TYPE_FSR;
    const uint32_t dtype = DTYPE;
    struct jls_signal_def_s sig = {.signal_id = SIG_ID, .source_id = src_id, .signal_type = stype, .data_type = dtype,
        .sample_rate = rate, .samples_per_data = 1000, .sample_decimate_factor = 100, .entries_per_summary = 200, .summary_decimate_factor = 100,
        .annotation_decimate_factor = adf, .utc_decimate_factor = udf, .name = gname, .units = gunits};
    int32_t wrc = jls_wr_signal_def(wr, &sig);
    CHECK(wrc == 0, "definition accepted");
    struct jls_signal_def_s stored = cw.signal_info[SIG_ID].signal_def;      /* the parameters actually used for storage */
    CHECK(stored.source_id == src_id && stored.signal_type == stype && stored.data_type == dtype, "ids and types are stored as given");
    CHECK(stype == JLS_SIGNAL_TYPE_VSR || stored.sample_rate == rate, "FSR rate stored as given");
    CHECK(ts_anno_df == stored.annotation_decimate_factor, "annotation track opened with the annotation factor");
    CHECK(stype == JLS_SIGNAL_TYPE_VSR || ts_utc_df == stored.utc_decimate_factor, "UTC track opened with the UTC factor");
    cr.signal_head.offset = ST_BASE;
    CHECK(0 == jls_core_scan_signals(&cr), "signals parsed");
    struct jls_signal_def_s * g = &cr.signal_info[SIG_ID].signal_def;
    CHECK(g->signal_id == SIG_ID, "signal found under its id (definition passes the reader's validation)");
    CHECK(g->source_id == stored.source_id && g->signal_type == stored.signal_type && g->data_type == stored.data_type && g->sample_rate == stored.sample_rate,
          "source, type, data type and rate read back");
    CHECK(g->samples_per_data == stored.samples_per_data && g->sample_decimate_factor == stored.sample_decimate_factor
          && g->entries_per_summary == stored.entries_per_summary && g->summary_decimate_factor == stored.summary_decimate_factor,
          "block parameters read back as actually used for storage");
    CHECK(g->annotation_decimate_factor == stored.annotation_decimate_factor, "annotation decimate factor reads back in its own field");
    CHECK(g->utc_decimate_factor == stored.utc_decimate_factor, "UTC decimate factor reads back in its own field");
    CHECK(str_eq(g->name, gname) && str_eq(g->units, gunits), "signal strings read back");
    /* the tracks written with the definition are attached to the signal */
    if (stype == JLS_SIGNAL_TYPE_FSR) {
        CHECK(cr.signal_info[SIG_ID].tracks[JLS_TRACK_TYPE_FSR].head.offset != 0 && cr.signal_info[SIG_ID].tracks[JLS_TRACK_TYPE_UTC].head.offset != 0
              && cr.signal_info[SIG_ID].tracks[JLS_TRACK_TYPE_ANNOTATION].head.offset != 0, "FSR signal: FSR, annotation and UTC track heads found");
    } else {
        CHECK(cr.signal_info[SIG_ID].tracks[JLS_TRACK_TYPE_VSR].head.offset != 0 && cr.signal_info[SIG_ID].tracks[JLS_TRACK_TYPE_ANNOTATION].head.offset != 0,
              "VSR signal: VSR and annotation track heads found");
    }

#elif defined(MODE_USERDATA)
    CHECK(0 == jls_wr_user_data(wr, 0, JLS_STORAGE_TYPE_INVALID, NULL, 0), "initial user data chunk");
    /* per instance: storage type UD_KIND, passed size UD_SIZE, for strings the text length UD_STRLEN; tag and binary bytes symbolic */
    SYM_U16(tag);
    const uint8_t kind = UD_KIND;
    const uint32_t size = UD_SIZE;
    uint8_t b[UD_B];
    uint32_t expect = size;
    if (kind == JLS_STORAGE_TYPE_BINARY) {
        SYM_BYTES(b, UD_B, "ud");
    } else {
        for (unsigned i = 0; i < UD_B; ++i) { b[i] = (i < UD_STRLEN) ? (uint8_t) ('a' + i) : (uint8_t) ((i == UD_STRLEN) ? 0 : 0x55); }
        expect = UD_STRLEN + 1;
    }
    int32_t wrc = jls_wr_user_data(wr, tag, (enum jls_storage_type_e) kind, b, size);
    CHECK(wrc == 0, "user data item accepted");
    cr.user_data_head.hdr = st_hdr[0];
    cr.user_data_head.offset = ST_BASE;
    CHECK(0 == jls_core_user_data(&cr, ud_cbk, NULL), "user data iteration succeeds");
    CHECK(ud_n == 1, "the item is delivered exactly once (the initial chunk is not an item)");
    CHECK(ud_meta == (tag & 0x0fff), "12-bit tag reads back");
    CHECK(ud_type == kind, "storage type reads back");
    CHECK(ud_size == expect, "size reads back (strings: strlen + 1 whatever size was passed)");
    SYM_U32(wi);
    ASSUME(wi < UD_B);
    if (wi < expect) {
        CHECK(ud_bytes[wi] == b[wi], "payload bytes unchanged");
    }

#elif defined(MODE_IDENTITY)
    const uint16_t src_id = SRC_ID;
    struct jls_source_def_s src = {.source_id = src_id, .name = "s", .vendor = "v", .model = NULL, .version = "", .serial_number = "n"};
    CHECK(0 == jls_wr_source_def(wr, &src), "source accepted");
    const uint16_t sig_id = SIG_ID;
    struct jls_signal_def_s sig = {.signal_id = sig_id, .source_id = src_id, .signal_type = JLS_SIGNAL_TYPE_FSR, .data_type = JLS_DATATYPE_I16,
        .sample_rate = 1000, .samples_per_data = 1000, .sample_decimate_factor = 100, .entries_per_summary = 200, .summary_decimate_factor = 100,
        .annotation_decimate_factor = 100, .utc_decimate_factor = 100, .name = "g", .units = "u"};
    CHECK(0 == jls_wr_signal_def(wr, &sig), "signal accepted");
    static uint8_t image[ST_N][ST_PMAX];
    static struct jls_chunk_header_s himage[ST_N];
    memcpy(image, st_pay, sizeof(image));
    memcpy(himage, st_hdr, sizeof(himage));
    uint32_t n0 = st_n;
    uint32_t ih0 = st_inplace_hdr, ip0 = st_inplace_pay;
#if IDENT_CASE == 0
    CHECK(jls_wr_source_def(wr, &src) != 0, "a second definition of an existing source id is rejected");
#elif IDENT_CASE == 1
    sig.name = "other";      /* whatever the second definition says */
    CHECK(jls_wr_signal_def(wr, &sig) != 0, "a second definition of an existing signal id is rejected");
#elif IDENT_CASE == 2
    struct jls_signal_def_s orphan = sig;
    SYM_U16(o_src);
    ASSUME(o_src != src_id && o_src != 0);          /* any source id that was never defined, in range or not */
    orphan.signal_id = (uint16_t) (JLS_SIGNAL_COUNT - sig_id);      /* a free signal id */
    orphan.source_id = o_src;
    CHECK(jls_wr_signal_def(wr, &orphan) != 0, "a signal naming an undefined source is rejected");
#else
    int16_t smp[4] = {1, 2, 3, 4};
    SYM_U16(u_sig);
    ASSUME(u_sig != sig_id);                        /* any signal id that was never defined, in range or not */
    CHECK(jls_wr_fsr(wr, u_sig, 0, smp, 4) != 0, "sample data for an undefined signal is rejected");
#endif
    CHECK(st_n == n0 && st_inplace_hdr == ih0 && st_inplace_pay == ip0, "rejected calls write nothing (no chunk appended, no header or payload rewritten)");
    SYM_U32(wk);
    SYM_U32(wb);
    ASSUME(wk < ST_N && wb < ST_PMAX);
    CHECK(st_pay[wk][wb] == image[wk][wb], "rejected calls leave every payload byte unchanged");
    CHECK(0 == memcmp(&st_hdr[wk], &himage[wk], sizeof(struct jls_chunk_header_s)), "rejected calls leave every chunk header unchanged");
#else
#error "select a mode"
#endif
    WITNESS_END();
}
