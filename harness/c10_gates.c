/* C10-O1: per-signal entry points reject undefined / wrong-type / out-of-range signal ids with an error code and
 * never dereference the per-signal state of such a signal.
 * Real units: writer.c, core.c, reader.c (gate code).  Everything below the gate is cut at real internal interfaces
 * (stubs below); a stub that is reached for an id that should have been rejected is a violation, and CBMC's pointer
 * checks flag any NULL/invalid dereference of track_fsr/track_anno/track_utc.
 * The core is constructed directly: NSIG signal slots (hook JLS_VERIF_SIGNAL_COUNT), each slot symbolically
 * defined/undefined, FSR/VSR; undefined and VSR slots have NULL FSR state exactly as calloc + jls_wr_signal_def leave them;
 * an undefined slot may also hold the residue of a definition that was refused for its parameters (id/type set, nothing written).
 */
#include "common.h"
#include "jls/core.h"
#include "jls/writer.h"
#include "jls/reader.h"
#include "jls/wr_fsr.h"
#include "jls/wr_ts.h"
#include "jls/track.h"
#include "jls/tmap.h"
#include "jls/ec.h"

#define NSIG JLS_SIGNAL_COUNT

static struct jls_core_s core;
static struct jls_core_fsr_s fsr_obj[NSIG];
static struct jls_core_ts_s anno_obj[NSIG];
static struct jls_core_ts_s utc_obj[NSIG];
static bool defined_[NSIG];
static bool is_fsr_[NSIG];
static int reached_below_gate;
static uint16_t sid;

/* ---- stubs at internal interfaces (bodies removed from the real units or never linked) ---- */
int32_t jls_wr_fsr_data(struct jls_core_fsr_s * self, int64_t sample_id, const void * data, uint32_t data_length) {
    (void) sample_id; (void) data; (void) data_length;
    CHECK(self != NULL, "jls_wr_fsr_data reached with NULL FSR state");
    reached_below_gate = 1;
    return 0;
}
int32_t jls_wr_ts_anno(struct jls_core_ts_s * self, int64_t timestamp, int64_t offset, enum jls_annotation_type_e t, uint8_t g, float y) {
    (void) timestamp; (void) offset; (void) t; (void) g; (void) y;
    CHECK(self != NULL, "jls_wr_ts_anno reached with NULL annotation state");
    reached_below_gate = 1;
    return 0;
}
int32_t jls_wr_ts_utc(struct jls_core_ts_s * self, int64_t sample_id, int64_t offset, int64_t utc) {
    (void) sample_id; (void) offset; (void) utc;
    CHECK(self != NULL, "jls_wr_ts_utc reached with NULL UTC state");
    reached_below_gate = 1;
    return 0;
}
int32_t jls_raw_wr(struct jls_raw_s * self, struct jls_chunk_header_s * hdr, const uint8_t * payload) {
    (void) self; (void) hdr; (void) payload;
    reached_below_gate = 1;
    return 0;
}
int32_t jls_raw_wr_header(struct jls_raw_s * self, struct jls_chunk_header_s * hdr) { (void) self; (void) hdr; reached_below_gate = 1; return 0; }
int32_t jls_raw_wr_payload(struct jls_raw_s * self, uint32_t n, const uint8_t * p) { (void) self; (void) n; (void) p; reached_below_gate = 1; return 0; }
int64_t jls_raw_chunk_tell(struct jls_raw_s * self) { (void) self; return 4096; }
int32_t jls_raw_chunk_seek(struct jls_raw_s * self, int64_t offset) { (void) self; (void) offset; reached_below_gate = 1; return JLS_ERROR_IO; }
int32_t jls_raw_chunk_next(struct jls_raw_s * self) { (void) self; reached_below_gate = 1; return JLS_ERROR_IO; }
int32_t jls_raw_rd(struct jls_raw_s * self, struct jls_chunk_header_s * h, uint32_t m, uint8_t * p) { (void) self; (void) h; (void) m; (void) p; reached_below_gate = 1; return JLS_ERROR_IO; }
int32_t jls_raw_rd_header(struct jls_raw_s * self, struct jls_chunk_header_s * h) { (void) self; (void) h; reached_below_gate = 1; return JLS_ERROR_IO; }
int32_t jls_raw_seek_end(struct jls_raw_s * self) { (void) self; return 0; }
int32_t jls_raw_flush(struct jls_raw_s * self) { (void) self; return 0; }
int32_t jls_track_update(struct jls_core_track_s * track, uint8_t level, int64_t pos) { (void) track; (void) level; (void) pos; reached_below_gate = 1; return 0; }
int32_t jls_track_wr_head(struct jls_core_track_s * track) { (void) track; reached_below_gate = 1; return 0; }
struct jls_tmap_s * jls_tmap_alloc(double sample_rate) { (void) sample_rate; reached_below_gate = 1; return NULL; }
int32_t jls_tmap_sample_id_to_timestamp(struct jls_tmap_s * s, int64_t a, int64_t * b) { (void) s; (void) a; (void) b; return 0; }
int32_t jls_tmap_timestamp_to_sample_id(struct jls_tmap_s * s, int64_t a, int64_t * b) { (void) s; (void) a; (void) b; return 0; }
int32_t jls_tmap_add_cbk(void * u, const struct jls_utc_summary_entry_s * utc, uint32_t size) { (void) u; (void) utc; (void) size; return 0; }

int32_t jls_core_rd_fsr_data0(struct jls_core_s * self, uint16_t signal_id, int64_t start_sample_id) {
    (void) self; (void) start_sample_id;
    CHECK(signal_id < NSIG && defined_[signal_id < NSIG ? signal_id : 0] && is_fsr_[signal_id < NSIG ? signal_id : 0],
          "data read reached for a signal that is not a defined FSR signal");
    reached_below_gate = 1;
    return JLS_ERROR_IO;
}

static int32_t anno_cbk(void * user_data, const struct jls_annotation_s * a) { (void) user_data; (void) a; return 0; }
static int32_t utc_cbk(void * user_data, const struct jls_utc_summary_entry_s * u, uint32_t n) { (void) user_data; (void) u; (void) n; return 0; }


#if ENTRY == 1
#define ENTRY_STMT(S) { \
    rc = jls_wr_fsr(wr, S, 0, f32buf, 4); \
}
#elif ENTRY == 2
#define ENTRY_STMT(S) { \
    rc = jls_wr_fsr_f32(wr, S, 0, f32buf, 4); \
}
#elif ENTRY == 3
#define ENTRY_STMT(S) { \
    rc = jls_wr_fsr_omit_data(wr, S, 1); \
}
#elif ENTRY == 4
#define ENTRY_STMT(S) { \
    need_fsr = false; \
    rc = jls_wr_annotation(wr, S, 0, 1.0f, JLS_ANNOTATION_TYPE_USER, 0, JLS_STORAGE_TYPE_BINARY, (const uint8_t *) f32buf, 4); \
}
#elif ENTRY == 5
#define ENTRY_STMT(S) { \
    rc = jls_wr_utc(wr, S, 0, 1234); \
}
#elif ENTRY == 6
#define ENTRY_STMT(S) { \
    rc = jls_rd_fsr_length(rd, S, &i64); \
}
#elif ENTRY == 7
#define ENTRY_STMT(S) { \
    rc = jls_rd_fsr(rd, S, 0, f32buf, 4); \
}
#elif ENTRY == 8
#define ENTRY_STMT(S) { \
    rc = jls_rd_fsr_f32(rd, S, 0, f32buf, 4); \
}
#elif ENTRY == 9
#define ENTRY_STMT(S) { \
    rc = jls_rd_fsr_statistics(rd, S, 0, 1, stat, 2); \
}
#elif ENTRY == 10
#define ENTRY_STMT(S) { \
    need_fsr = false; \
    rc = jls_rd_annotations(rd, S, 0, anno_cbk, NULL); \
    if (ok_any) { rc = 1; }     /* defined signal without annotations legitimately returns 0 */ \
}
#elif ENTRY == 11
#define ENTRY_STMT(S) { \
    need_fsr = false; \
    rc = jls_rd_utc(rd, S, 0, utc_cbk, NULL); \
    if (ok_any) { rc = 1; } \
}
#elif ENTRY == 12
#define ENTRY_STMT(S) { \
    rc = jls_rd_sample_id_to_timestamp(rd, S, 0, &i64); \
}
#elif ENTRY == 13
#define ENTRY_STMT(S) { \
    rc = jls_rd_timestamp_to_sample_id(rd, S, 0, &i64); \
}
#elif ENTRY == 14
#define ENTRY_STMT(S) { \
    need_fsr = false; \
    { \
        struct jls_signal_def_s d; \
        rc = jls_rd_signal(rd, S, &d); \
        if (rc == 0) { CHECK(ok_any && d.signal_id == S, "jls_rd_signal succeeds only for a defined signal"); rc = ok_any ? 1 : 0; } \
    } \
}
#elif ENTRY == 15
#define ENTRY_STMT(S) { \
    need_fsr = false; \
    rc = jls_core_wr_data(&core, S, JLS_TRACK_TYPE_ANNOTATION, (const uint8_t *) f32buf, 16); \
}
#elif ENTRY == 16
#define ENTRY_STMT(S) { \
    rc = jls_core_fsr_seek(&core, S, 0, 0); \
}
#else
#error "ENTRY"
#endif

void harness(void) {
    for (unsigned i = 0; i < NSIG; ++i) {
        SYM_U8(st);           /* bit0: defined, bit1: FSR, bit2 (undefined slots): residue of a refused definition */
        defined_[i] = (st & 1) != 0;
        is_fsr_[i] = (st & 2) != 0;
        struct jls_core_signal_s * s = &core.signal_info[i];
        s->parent = &core;
        for (unsigned t = 0; t < 4; ++t) {
            s->tracks[t].parent = s;
            s->tracks[t].track_type = (uint8_t) t;
        }
        if (i == 0) {          /* signal 0 is always defined, VSR (jls_wr_open) */
            defined_[0] = true;
            is_fsr_[0] = false;
        }
        if (defined_[i]) {
            s->signal_def.signal_id = (uint16_t) i;
            s->signal_def.signal_type = is_fsr_[i] ? JLS_SIGNAL_TYPE_FSR : JLS_SIGNAL_TYPE_VSR;
            s->signal_def.data_type = JLS_DATATYPE_F32;
            s->signal_def.sample_rate = is_fsr_[i] ? 1000 : 0;
            s->signal_def.samples_per_data = 16; s->signal_def.sample_decimate_factor = 16;
            s->signal_def.entries_per_summary = 10; s->signal_def.summary_decimate_factor = 10;
            s->chunk_def.offset = 64 + 64 * i;
            s->track_anno = &anno_obj[i];
            anno_obj[i].parent = s; anno_obj[i].track_type = JLS_TRACK_TYPE_ANNOTATION; anno_obj[i].decimate_factor = 10;
            if (is_fsr_[i]) {
                s->track_fsr = &fsr_obj[i];
                fsr_obj[i].parent = s; fsr_obj[i].signal_length = -1;
                s->track_utc = &utc_obj[i];
                utc_obj[i].parent = s; utc_obj[i].track_type = JLS_TRACK_TYPE_UTC; utc_obj[i].decimate_factor = 10;
            }
        } else if (st & 4) {
            /* residue of a definition that jls_wr_signal_def refused for its parameters: the caller's struct was copied into the slot
             * before validation (id and type set), nothing was written (chunk_def.offset == 0), no per-signal state was opened */
            s->signal_def.signal_id = (uint16_t) i;
            s->signal_def.signal_type = is_fsr_[i] ? JLS_SIGNAL_TYPE_FSR : JLS_SIGNAL_TYPE_VSR;
            s->signal_def.data_type = JLS_DATATYPE_F32;
            s->signal_def.sample_rate = 0;
        }
    }
    core.buf = jls_buf_alloc();
    ASSUME(core.buf != NULL);
    SYM_T(uint16_t, signal_id);
    sid = signal_id;
    bool in_range = signal_id < NSIG;
    bool ok_any = in_range && defined_[in_range ? signal_id : 0];
    bool ok_fsr = ok_any && is_fsr_[in_range ? signal_id : 0];
    struct jls_wr_s * wr = (struct jls_wr_s *) &core;   /* struct jls_wr_s { struct jls_core_s core; } */
    struct jls_rd_s * rd = (struct jls_rd_s *) &core;   /* struct jls_rd_s { struct jls_core_s core; } */
    float f32buf[4] = {0, 0, 0, 0};
    double stat[8];
    int64_t i64 = 0;
    int32_t rc = 0;
    bool need_fsr = true;
    (void) wr; (void) rd;
    /* Sound case split on the id: each in-range value gets its own call with a constant index (a symbolic index into the
     * array of large per-signal structs was measured at 30M clauses / 300 s); all remaining values share one symbolic call. */
#define CALL_WITH(SV) do { const uint16_t S = (SV); ENTRY_STMT(S); } while (0)
#ifdef RANGE_OUT
    /* out-of-range ids: the core is built with a single slot (hook), every id >= 1 is out of range */
    ASSUME(signal_id >= NSIG);
    CALL_WITH(signal_id);
#else
    ASSUME(signal_id < NSIG);
    if (signal_id == 0) { CALL_WITH(0); }
#if JLS_SIGNAL_COUNT > 1
    else if (signal_id == 1) { CALL_WITH(1); }
#endif
#if JLS_SIGNAL_COUNT > 2
    else if (signal_id == 2) { CALL_WITH(2); }
#endif
#if JLS_SIGNAL_COUNT > 3
    else if (signal_id == 3) { CALL_WITH(3); }
#endif
#endif
    bool acceptable = need_fsr ? ok_fsr : ok_any;
    if (!acceptable) {
        CHECK(rc != 0, "undefined / wrong-type / out-of-range signal id is reported through an error code");
    }
    WITNESS_END();
}
