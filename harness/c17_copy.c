/* C17-O1: jls_copy (real src/copy.c + buffer.c) re-issues every content chunk of the source file to the writer with exactly
 * the parsed fields.  Seams: the raw reader API (jls_raw_*) is a feeder that presents ONE chunk with a symbolic tag (out of the
 * content-bearing kinds), symbolic chunk_meta and symbolic payload, followed by end of file; the writer API (jls_wr_*) is a
 * recording sink.  Everything in between - tag dispatch, masks, payload parsing, sizes, pointers - is the real code.
 */
#include "common.h"
#include "jls/copy.h"
#include "jls/raw.h"
#include "jls/writer.h"
#include "jls/format.h"
#include "jls/ec.h"

#define PAYMAX 176

static struct jls_chunk_header_s feed_hdr;
static uint8_t feed_pay[PAYMAX];
static int64_t rd_pos;
static const int64_t POS0 = 32, POS_END = 32 + 32 + PAYMAX + 8;
static int rd_open_count, wr_open_count, wr_close_count, rd_close_count;

/* ---- recording sink ---- */
static int n_calls;
static int last_kind;         /* 1 source 2 signal 3 fsr 4 annotation 5 utc 6 user_data */
static struct jls_source_def_s got_source;
static char got_str[7][8];
static struct jls_signal_def_s got_signal;
static uint16_t got_signal_id, got_meta;
static int64_t got_t0, got_t1;
static const void * got_data;
static uint32_t got_len;
static float got_y;
static int got_atype, got_group, got_stype;
static uint8_t got_bytes[PAYMAX];

static void save_str(int i, const char * s) {
    for (unsigned k = 0; k < 8; ++k) { got_str[i][k] = 0; }
    if (s) {
        for (unsigned k = 0; k < 7; ++k) {
            got_str[i][k] = s[k];
            if (!s[k]) { break; }
        }
    } else {
        got_str[i][7] = 1;     /* marks NULL */
    }
}

struct jls_wr_s { int dummy; };
static struct jls_wr_s the_wr;
struct jls_raw_s { int dummy; };
static struct jls_raw_s the_rd;

int32_t jls_wr_open(struct jls_wr_s ** instance, const char * path) { (void) path; *instance = &the_wr; ++wr_open_count; return 0; }
int32_t jls_wr_close(struct jls_wr_s * self) { (void) self; ++wr_close_count; return 0; }
int32_t jls_wr_source_def(struct jls_wr_s * self, const struct jls_source_def_s * source) {
    (void) self; ++n_calls; last_kind = 1; got_source = *source;
    save_str(0, source->name); save_str(1, source->vendor); save_str(2, source->model); save_str(3, source->version); save_str(4, source->serial_number);
    return 0;
}
int32_t jls_wr_signal_def(struct jls_wr_s * self, const struct jls_signal_def_s * signal) {
    (void) self; ++n_calls; last_kind = 2; got_signal = *signal; save_str(5, signal->name); save_str(6, signal->units); return 0;
}
int32_t jls_wr_fsr(struct jls_wr_s * self, uint16_t signal_id, int64_t sample_id, const void * data, uint32_t data_length) {
    (void) self; ++n_calls; last_kind = 3; got_signal_id = signal_id; got_t0 = sample_id; got_data = data; got_len = data_length; return 0;
}
int32_t jls_wr_annotation(struct jls_wr_s * self, uint16_t signal_id, int64_t timestamp, float y, enum jls_annotation_type_e annotation_type,
                          uint8_t group_id, enum jls_storage_type_e storage_type, const uint8_t * data, uint32_t data_size) {
    (void) self; ++n_calls; last_kind = 4; got_signal_id = signal_id; got_t0 = timestamp; got_y = y; got_atype = annotation_type; got_group = group_id;
    got_stype = storage_type; got_data = data; got_len = data_size; return 0;
}
int32_t jls_wr_utc(struct jls_wr_s * self, uint16_t signal_id, int64_t sample_id, int64_t utc) {
    (void) self; ++n_calls; last_kind = 5; got_signal_id = signal_id; got_t0 = sample_id; got_t1 = utc; return 0;
}
int32_t jls_wr_user_data(struct jls_wr_s * self, uint16_t chunk_meta, enum jls_storage_type_e storage_type, const uint8_t * data, uint32_t data_size) {
    (void) self; ++n_calls; last_kind = 6; got_meta = chunk_meta; got_stype = storage_type; got_data = data; got_len = data_size;
    for (unsigned i = 0; i < PAYMAX; ++i) { got_bytes[i] = (data && i < data_size) ? data[i] : 0; }
    return 0;
}

/* ---- feeder ---- */
int32_t jls_raw_open(struct jls_raw_s ** instance, const char * path, const char * mode) {
    (void) path; CHECK(mode[0] == 'r', "source opened read-only"); *instance = &the_rd; rd_pos = POS0; ++rd_open_count; return 0;
}
int32_t jls_raw_close(struct jls_raw_s * self) { (void) self; ++rd_close_count; return 0; }
int64_t jls_raw_chunk_tell(struct jls_raw_s * self) { (void) self; return rd_pos; }
int32_t jls_raw_seek_end(struct jls_raw_s * self) { (void) self; rd_pos = POS_END; return 0; }
int32_t jls_raw_chunk_seek(struct jls_raw_s * self, int64_t offset) { (void) self; rd_pos = offset; return 0; }
int32_t jls_raw_rd_header(struct jls_raw_s * self, struct jls_chunk_header_s * hdr) {
    (void) self;
    CHECK(rd_pos == POS0, "header read at the chunk position");
    *hdr = feed_hdr;
    return 0;
}
int32_t jls_raw_rd_payload(struct jls_raw_s * self, uint32_t payload_length_max, uint8_t * payload) {
    (void) self;
    uint32_t on_disk = feed_hdr.payload_length ? ((feed_hdr.payload_length + 4 + 7) / 8) * 8 : 0;
    if (on_disk > payload_length_max) {
        return JLS_ERROR_TOO_BIG;
    }
    for (unsigned i = 0; i < PAYMAX; ++i) {
        if (i < feed_hdr.payload_length) { payload[i] = feed_pay[i]; }
    }
    rd_pos = POS_END;
    return 0;
}
int32_t jls_raw_chunk_next(struct jls_raw_s * self) { (void) self; rd_pos = POS_END; return 0; }
int32_t jls_raw_chunk_scan(struct jls_raw_s * self) { (void) self; rd_pos = POS_END; return JLS_ERROR_NOT_FOUND; }
const char * jls_error_code_name(int ec) { (void) ec; return "e"; }
const char * jls_error_code_description(int ec) { (void) ec; return "e"; }

static uint32_t put_str(uint8_t * p, uint32_t at, char c, uint8_t len) {     /* string of len copies of c, then {0, 0x1f} */
    for (uint8_t i = 0; i < 3; ++i) { if (i < len) { p[at++] = (uint8_t) c; } }
    p[at++] = 0; p[at++] = 0x1f;
    return at;
}
static void wr_u32(uint8_t * p, uint32_t v) { p[0] = (uint8_t) v; p[1] = (uint8_t) (v >> 8); p[2] = (uint8_t) (v >> 16); p[3] = (uint8_t) (v >> 24); }

void harness(void) {
    SYM_U16(meta);
    feed_hdr.chunk_meta = meta;
    feed_hdr.item_next = 0; feed_hdr.item_prev = 0; feed_hdr.rsv0_u8 = 0; feed_hdr.payload_prev_length = 0; feed_hdr.crc32 = 0;
    uint32_t plen = 0;
    uint32_t u32v[8];
    char sc[7];
    uint8_t sl[7];
#if defined(KIND_USER_DATA)
    feed_hdr.tag = JLS_TAG_USER_DATA;
#ifdef NFIX
    const uint32_t n = NFIX;      /* a symbolic length makes jls_buf_realloc's size symbolic (no verdict at 11 GB) */
#else
    SYM_U32(n);
    ASSUME(n <= 24);
#endif
    SYM_BYTES(feed_pay, 24, "payload");
    plen = n;
#elif defined(KIND_ANNOTATION)
    feed_hdr.tag = JLS_TAG_TRACK_ANNOTATION_DATA;
#ifdef NFIX
    const uint32_t n = NFIX;
#else
    SYM_U32(n);
    ASSUME(n <= 12);
#endif
    SYM_BYTES(feed_pay, 28 + 12, "payload");       /* struct jls_annotation_s: 28 header bytes + data */
    struct jls_annotation_s ah;
    memcpy(&ah, feed_pay, 28);
    ah.data_size = n;
    memcpy(feed_pay, &ah, 28);
    plen = 28 + n;
#elif defined(KIND_UTC)
    feed_hdr.tag = JLS_TAG_TRACK_UTC_DATA;
    SYM_BYTES(feed_pay, 24, "payload");            /* struct jls_utc_data_s */
    plen = 24;
#elif defined(KIND_FSR)
    feed_hdr.tag = JLS_TAG_TRACK_FSR_DATA;
    SYM_BYTES(feed_pay, 16 + 16, "payload");       /* payload header + samples */
    plen = 32;
#elif defined(KIND_SOURCE)
    feed_hdr.tag = JLS_TAG_SOURCE_DEF;
    plen = 64;
    for (unsigned i = 0; i < 5; ++i) {
        SYM_SET(uint8_t, sc[i], "str_char");
        SYM_SET(uint8_t, sl[i], "str_len");
        ASSUME(sc[i] != 0 && sl[i] <= 3);
        plen = put_str(feed_pay, plen, sc[i], sl[i]);
    }
#elif defined(KIND_SIGNAL)
    feed_hdr.tag = JLS_TAG_SIGNAL_DEF;
    SYM_U16(src_id);
    SYM_U8(stype);
    feed_pay[0] = (uint8_t) src_id; feed_pay[1] = (uint8_t) (src_id >> 8); feed_pay[2] = stype; feed_pay[3] = 0;
    for (unsigned i = 0; i < 8; ++i) {
        SYM_SET(uint32_t, u32v[i], "u32_field");
        wr_u32(feed_pay + 4 + 4 * i, u32v[i]);
    }
    plen = 4 + 32 + 92;
    for (unsigned i = 5; i < 7; ++i) {
        SYM_SET(uint8_t, sc[i], "str_char");
        SYM_SET(uint8_t, sl[i], "str_len");
        ASSUME(sc[i] != 0 && sl[i] <= 3);
        plen = put_str(feed_pay, plen, sc[i], sl[i]);
    }
#else
#error "KIND"
#endif
    feed_hdr.payload_length = plen;
    int32_t rc = jls_copy("src", "dst", NULL, NULL, NULL, NULL);
    CHECK(rc == 0, "copy of a readable file succeeds");
    CHECK(rd_open_count == 1 && wr_open_count == 1, "source and destination opened once");
    CHECK(wr_close_count == 1, "destination closed (properly closed file)");
    const uint16_t id12 = meta & 0x0fff;
#if defined(KIND_USER_DATA)
    uint8_t st = (uint8_t) (meta >> 12);
    if (st == JLS_STORAGE_TYPE_INVALID) {
        CHECK(n_calls == 0, "the initial (storage type INVALID) user-data chunk is not re-issued");
    } else {
        CHECK(n_calls == 1 && last_kind == 6, "one jls_wr_user_data call");
        CHECK(got_meta == id12, "user-data tag: all 12 bits preserved");
        CHECK(got_stype == st, "storage type preserved");
        CHECK(got_len == plen, "size preserved");
        SYM_U32(wi);
        ASSUME(wi < 24);
        if (wi < plen) { CHECK(got_bytes[wi] == feed_pay[wi], "user-data bytes preserved"); }
    }
#elif defined(KIND_ANNOTATION)
    CHECK(n_calls == 1 && last_kind == 4, "one jls_wr_annotation call");
    CHECK(got_signal_id == id12, "annotation goes to the same signal");
    CHECK(got_t0 == ah.timestamp && verif_f32_bits(got_y) == verif_f32_bits(ah.y) && got_atype == ah.annotation_type && got_group == ah.group_id && got_stype == ah.storage_type,
          "timestamp, y, type, group and storage type preserved");
    CHECK(got_len == ah.data_size, "annotation payload size preserved");
    {
        SYM_U32(wi);
        ASSUME(wi < 12);
        if (wi < n && got_data != NULL) { CHECK(((const uint8_t *) got_data)[wi] == feed_pay[28 + wi], "annotation payload bytes preserved"); }
    }
#elif defined(KIND_UTC)
    {
        struct jls_utc_data_s u;
        memcpy(&u, feed_pay, 24);
        CHECK(n_calls == 1 && last_kind == 5, "one jls_wr_utc call");
        CHECK(got_signal_id == id12 && got_t0 == u.header.timestamp && got_t1 == u.timestamp, "UTC entry (signal, sample id, utc) preserved");
    }
#elif defined(KIND_FSR)
    {
        struct jls_payload_header_s ph;
        memcpy(&ph, feed_pay, 16);
        CHECK(n_calls == 1 && last_kind == 3, "one jls_wr_fsr call");
        CHECK(got_signal_id == id12 && got_t0 == ph.timestamp && got_len == ph.entry_count, "FSR block (signal, first sample id, count) preserved");
        SYM_U32(wi);
        ASSUME(wi < 16);
        if (got_data != NULL) { CHECK(((const uint8_t *) got_data)[wi] == feed_pay[16 + wi], "FSR sample bytes preserved"); }
    }
#elif defined(KIND_SOURCE)
    if (meta == 0) {
        CHECK(n_calls == 0, "the reserved source 0 is not re-issued (the writer creates it)");
    } else {
        CHECK(n_calls == 1 && last_kind == 1, "one jls_wr_source_def call");
        CHECK(got_source.source_id == meta, "source id preserved");
        SYM_U32(ws);
        ASSUME(ws < 5);
        for (unsigned k = 0; k < 4; ++k) {
            CHECK(got_str[ws][k] == ((k < sl[ws]) ? sc[ws] : 0), "source strings preserved");
        }
    }
#elif defined(KIND_SIGNAL)
    if (meta == 0) {
        CHECK(n_calls == 0, "the reserved signal 0 is not re-issued");
    } else {
        CHECK(n_calls == 1 && last_kind == 2, "one jls_wr_signal_def call");
        CHECK(got_signal.signal_id == meta && got_signal.source_id == src_id && got_signal.signal_type == stype, "ids and type preserved");
        CHECK(got_signal.data_type == u32v[0] && got_signal.sample_rate == u32v[1] && got_signal.samples_per_data == u32v[2] && got_signal.sample_decimate_factor == u32v[3]
              && got_signal.entries_per_summary == u32v[4] && got_signal.summary_decimate_factor == u32v[5] && got_signal.annotation_decimate_factor == u32v[6]
              && got_signal.utc_decimate_factor == u32v[7], "definition parameters preserved field by field");
        SYM_U32(ws);
        ASSUME(ws >= 5 && ws < 7);
        for (unsigned k = 0; k < 4; ++k) {
            CHECK(got_str[ws][k] == ((k < sl[ws]) ? sc[ws] : 0), "signal strings preserved");
        }
    }
#endif
    WITNESS_END();
}
