/* C03-O2: the backward scan for the last complete chunk (real jls_core_rd_chunk_end in core.c, raw.c over membk, crcfun).
 * File = valid (unclosed) file header + TAIL symbolic bytes, symbolic file length.  After the scan:
 *   rc == 0          => the position reported is 8-byte aligned, holds a header whose checksum matches and whose payload
 *                       (+padding+checksum) lies completely inside the file with a matching checksum, and no later aligned
 *                       position holds such a chunk (symbolic watched position);
 *   rc == NOT_FOUND  => no aligned position behind the file header holds a complete valid chunk;
 * the scan terminates and never reads outside its 1 KiB window (CBMC bounds checks on data[128]).
 */
#include "common.h"
#include "membk.h"
#include "jls/core.h"
#include "jls/raw.h"
#include "jls/crc32c.h"
#include "jls/ec.h"

#ifndef TAIL
#define TAIL 96
#endif
#define PLIM 8          /* payload lengths above this cannot be complete inside the tail */

static struct jls_core_s core;
static const uint8_t IDENT[16] = JLS_HEADER_IDENTIFICATION;

static uint32_t rd_u32(const uint8_t * p) {
    return ((uint32_t) p[0]) | (((uint32_t) p[1]) << 8) | (((uint32_t) p[2]) << 16) | (((uint32_t) p[3]) << 24);
}

/* format.h: is there a complete, valid chunk at offset q of a file of length flen? */
static bool valid_chunk_at(int64_t q, int64_t flen) {
    if (q < 0 || (q & 7) || q + 32 > flen) {
        return false;
    }
    struct jls_chunk_header_s h;
    memcpy(&h, membk_file + q, 32);
    if (jls_crc32c(membk_file + q, 28) != h.crc32) {
        return false;
    }
    if (h.payload_length == 0) {
        return true;
    }
    if (h.payload_length > PLIM + TAIL) {
        return false;
    }
    uint32_t sz = ((h.payload_length + 4 + 7) / 8) * 8;
    if (q + 32 + (int64_t) sz > flen) {
        return false;
    }
    return jls_crc32c(membk_file + q + 32, h.payload_length) == rd_u32(membk_file + q + 32 + sz - 4);
}

/* seam: within the bound no chunk needs a larger read buffer (payload lengths of checksum-valid headers are assumed <= PLIM below);
 * growing the buffer is decided in C13-O4 */
int32_t jls_buf_realloc(struct jls_buf_s * self, size_t size) {
    CHECK(size <= self->alloc_size, "read buffer growth not needed within the bound");
    return (size <= self->alloc_size) ? 0 : JLS_ERROR_NOT_ENOUGH_MEMORY;
}

void harness(void) {
    membk_reset();
    struct jls_file_header_s fh;
    memcpy(fh.identification, IDENT, 16);
    fh.length = 0;
    fh.version.u32 = JLS_FORMAT_VERSION_U32;
    fh.crc32 = jls_crc32c((uint8_t *) &fh, 28);
    memcpy(membk_file, &fh, 32);
    SYM_BYTES(membk_file + 32, TAIL, "tail");
    SYM_U32(flen);
    ASSUME(flen >= 32 && flen <= 32 + TAIL);
    membk_len = flen;
    /* bound: a checksum-valid header inside the tail does not announce a payload longer than PLIM */
    for (unsigned k = 4; k < (32 + TAIL) / 8; ++k) {
        if (8 * k + 32 <= flen) {
            struct jls_chunk_header_s hh;
            memcpy(&hh, membk_file + 8 * k, 32);
            ASSUME(jls_crc32c(membk_file + 8 * k, 28) != hh.crc32 || hh.payload_length <= PLIM);
        }
    }
    int32_t rc = jls_raw_open(&core.raw, "f", "r");
    ASSUME(rc == JLS_ERROR_TRUNCATED && core.raw != NULL);
    core.buf = jls_buf_alloc();
    ASSUME(core.buf != NULL);
    rc = jls_core_rd_chunk_end(&core);
    SYM_U32(q);
    ASSUME(q >= 8 && q <= 32 + TAIL && (q & 7) == 0);
    if (rc == 0) {
        int64_t pos = jls_raw_chunk_tell(core.raw);
        CHECK((pos & 7) == 0 && pos >= 8 && pos + 32 <= (int64_t) flen, "reported position is aligned and holds a complete header");
        CHECK(valid_chunk_at(pos, flen), "the reported last chunk is complete and valid (header and payload checksums)");
        if ((int64_t) q > pos) {
            CHECK(!valid_chunk_at(q, flen), "no later aligned position holds a complete valid chunk");
        }
        CHECK(core.chunk_cur.offset == pos, "chunk_cur describes the reported chunk");
    } else {
        CHECK(rc == JLS_ERROR_NOT_FOUND || rc == JLS_ERROR_IO || rc == JLS_ERROR_EMPTY, "failure is reported through an error code");
        if (rc == JLS_ERROR_NOT_FOUND) {
            CHECK(!valid_chunk_at(q, flen), "NOT_FOUND only if no aligned position holds a complete valid chunk");
        }
    }
    CHECK(membk_n_writes == 0 && membk_n_truncates == 0, "the scan does not modify the file");
    WITNESS_END();
}
