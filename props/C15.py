from vlib import Obl, PORTFOLIO
from props.C01 import packer, WIDTHS, BLOCKS

TITLE = 'Omitting level-0 data never changes length or summaries'
LEVEL_TEXT = ('bounded symbolic verification of the omission decision in the real wr_data (wr_fsr.c) at the block-stream seam and of the reader-side reconstruction '
              '(core.c) over a symbolic level-1 store')
TRUSTED = ['cbmc 6.11', 'recording stubs at jls_core_fsr_summary1 / jls_core_wr_data', 'relational argument: everything downstream of jls_core_fsr_summary1 (all summaries, length) receives the '
           'same block data whether or not the data chunk is written, because omission only replaces the position argument by 0']
OUTSIDE = ['blocks omitted on request for wider types (synthesised samples are pseudo-random by design; only their count/type would be checkable)', 'blocks larger than the small hooked sizes', 'toggling omission in the middle of a session more than once']
EXPLANATION = ('O1: the packer harness of C01 with symbolic sample bytes (so constant and non-constant blocks arise symbolically) and a symbolic omission request; at the '
               'jls_core_fsr_summary1 seam every block is observed with its data: the block stream, its timestamps and the length are asserted identical to the written '
               'stream in all cases, the first block is always stored, a full <=8-bit block is omitted iff constant, a wider block iff omission is in effect. '
               'O2: jls_core_rd_fsr_data0 loads the block that holds a requested sample, stored or reconstructed (identity of the block; the reconstructed value is not asserted).')


def obligations(tier):
    o = []
    to = 900 if tier == 'quick' else 2400
    for bits in ([1, 4, 8, 32] if tier == 'quick' else WIDTHS):
        ob = packer('O1_omit_decision_w%d' % bits, bits, 2, 0, 0, to, extra=['OMIT_REQUEST=1', 'OMIT_CHECK=1'], nmax=BLOCKS[bits] + 3,
                    desc='omission decision and invariance of the block stream, %d-bit samples, symbolic omission request' % bits)
        o.append(ob)
    # O2 reader reconstruction, block level (harness/c15_recon.c).  The window-level variant (harness/c15_reader.c, whole jls_core_fsr over 3 blocks) ran out of
    # memory for u8 and returned a non-reproducing counterexample for u4 -> props/_unclaimed_C15_O2.txt.
    for bits, omit in ([(8, 1), (4, 1), (8, 2), (4, 2)] if tier == 'quick' else [(8, 1), (4, 1), (1, 1), (8, 2), (4, 2), (1, 2)]):
        blk = (16 * bits) // 8
        o.append(Obl('O2_block_load_w%d%s' % (bits, '' if omit == 1 else '_omitted_last'), 'c15_recon.c', units=['core.c', 'buffer.c'], seams={'core.c': ['jls_core_rd_fsr_level1', 'jls_core_rd_chunk']},
                     stubs=['log_stub.c', 'fp_stub.c'],
                     defines=['JLS_VERIF_SIGNAL_COUNT=2', 'JLS_VERIF_SOURCE_COUNT=2', 'JLS_VERIF_FSR_BUFFER_U64=2', 'JLS_VERIF_BUF_DEFAULT_SIZE=160', 'JLS_VERIF_BUF_STRING_SIZE=16',
                              'BITS=%d' % bits, 'OMIT=%d' % omit],
                     unwind=max(3 * blk + 4, 12), typed_calloc=True, timeout=600 if tier == 'quick' else 2400, backend=PORTFOLIO, objbits=10,
                     desc=('jls_core_rd_fsr_data0 for any sample of a 3-block u%d signal (stored, automatically omitted constant block, stored; "_omitted_last": stored, stored, omitted -- the summary chunk ends with the omitted block): the loaded block is the block of that sample '
                           '(first sample id = block start also for an unaligned request into the omitted block, full count, width); bytes of stored blocks are the written ones') % bits,
                     bound='3 blocks of 16 samples; symbolic requested sample, first sample id, stored bytes and constant',
                     assumes=['level-1 index/summary provided at the jls_core_rd_fsr_level1 seam with mean = constant for the omitted block (what the writer stores, C02)',
                              'the value filled into the reconstructed block is NOT asserted (CBMC 6.11 does not encode the read through the flexible float data[][4] member faithfully)']))
    return o
