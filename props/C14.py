from vlib import Obl, PORTFOLIO

TITLE = 'Write-once: stored content is never rewritten, only links and head tables'
LEVEL_TEXT = ('bounded symbolic verification of the real file-touching writer primitives (raw.c, core.c, track.c, writer.c, buffer.c) over an in-memory backend: '
              'from a pre-state built by the real open/definition code, K symbolic operations; every in-place backend write and every changed byte is classified '
              'against the chunk map')
TRUSTED = ['cbmc 6.11', 'membk.c (write log)', 'crcstub.c (content-independent checksum: CRC values are not the subject here)', 'typed_calloc.h', 'chunk map decoder and classification in harness/c14_writeonce.c', 'wr_ts.c / wr_fsr.c not linked (their file effects go through the primitives exercised)']
OUTSIDE = ['sequences longer than K operations from the initial state (no inductive invariant over arbitrary list tails was built)', 'the file header rewrite at close',
           'payloads longer than 24 bytes']
EXPLANATION = ('The harness opens a file with the real raw layer, writes the initial user-data chunk, source 0 and one FSR signal definition with its three track DEF/HEAD chunks, '
               'then performs K symbolic operations among jls_core_wr_data / _index / _summary, jls_wr_annotation, jls_wr_utc, jls_wr_user_data (incl. NULL payload), '
               'jls_wr_source_def and an annotation on an undefined signal. After each operation: the file did not shrink; every backend write below the previous end is a 32-byte '
               'header rewrite or a HEAD payload/footer rewrite; a symbolic watched byte that changed lies in link/crc fields of a header or in a head entry that went 0 -> existing chunk.')

HOOKS = ['JLS_VERIF_SIGNAL_COUNT=2', 'JLS_VERIF_SOURCE_COUNT=3', 'JLS_VERIF_BUF_DEFAULT_SIZE=256', 'JLS_VERIF_BUF_STRING_SIZE=64', 'JLS_VERIF_FSR_BUFFER_U64=2',
         'MEMBK_SIZE=1280', 'MEMBK_LOG=96']


OPS = {0: 'core_wr_data', 1: 'core_wr_index', 2: 'core_wr_summary', 3: 'wr_annotation', 4: 'wr_utc', 5: 'wr_user_data', 6: 'wr_source_def', 7: 'annotation_on_undefined_signal'}


def obligations(tier):
    o = []
    pairs = [(3, 3), (4, 4), (5, 5), (6, 6), (0, 0), (1, 1), (2, 1), (5, 3), (7, 0)]
    if tier == 'thorough':
        pairs += [(a, b) for a in range(8) for b in range(8) if (a, b) not in pairs and a != b][:24]
    for pr in pairs + [(5, 5, 'null'), (5, 3, 'null')]:
        a, b = pr[0], pr[1]
        isnull = len(pr) == 3
        o.append(Obl('O1_writeonce_%s%s_then_%s' % (OPS[a], '_NULLpayload' if isnull else '', OPS[b]), 'c14_writeonce.c', units=['raw.c', 'core.c', 'track.c', 'writer.c', 'buffer.c'],
                     stubs=['log_stub.c', 'membk.c', 'crcstub.c'], defines=HOOKS + ['KOPS=2', 'OP1=%d' % a, 'OP2=%d' % b, 'PLEN_FIXED=5'] + (['USERDATA_NULL=1'] if isnull else []), unwind=100, typed_calloc=True, flags=['--max-field-sensitivity-array-size', '2048'],
                     timeout=800, backend=PORTFOLIO, mem_gb=20, objbits=10,
                     desc='after open + definitions: %s then %s (symbolic arguments/payloads): only header link/crc rewrites and 0->offset head-table updates below the old end of file' % (OPS[a], OPS[b]),
                     bound='2 operations (fixed kinds per instance), payload length fixed (5 data bytes, symbolic content), one FSR signal, sources 0..2'))
    # three operations with per-step payload lengths: payload-less chunks inside a list (their payload_prev_length / payload_length are 0, so a header
    # rewrite that "repairs" zero fields shows only here).  Fourth-round seed C14c-m1 needs empty, empty, non-empty user data.
    for (ops, lens) in [((5, 5, 5), (0, 0, 5)), ((5, 5, 5), (0, 5, 0))] + ([((3, 3, 3), (0, 0, 5)), ((5, 3, 5), (0, 0, 5))] if tier == 'thorough' else []):
        o.append(Obl('O1_writeonce_3ops_%s_len%s' % ('_'.join(OPS[x] for x in ops), '_'.join(str(x) for x in lens)), 'c14_writeonce.c', units=['raw.c', 'core.c', 'track.c', 'writer.c', 'buffer.c'],
                     stubs=['log_stub.c', 'membk.c', 'crcstub.c'], defines=HOOKS + ['KOPS=3', 'OP1=%d' % ops[0], 'OP2=%d' % ops[1], 'OP3=%d' % ops[2], 'PLEN1=%d' % lens[0], 'PLEN2=%d' % lens[1], 'PLEN3=%d' % lens[2]],
                     unwind=100, typed_calloc=True, flags=['--max-field-sensitivity-array-size', '2048'], timeout=800, backend=PORTFOLIO, mem_gb=20, objbits=10,
                     desc='after open + definitions: three operations %s with payload lengths %s (payload-less chunks inside a list): only header link/crc rewrites and 0->offset head-table updates below the old end of file' % (ops, lens),
                     bound='3 operations (fixed kinds and payload lengths per instance, symbolic content), one FSR signal, sources 0..2'))
    return o
