/* Raw layer (real src/raw.c) over the in-memory backend, with crcfun as checksum.
 * MODE_RD      (C04-O1): a fully symbolic chunk (32 header bytes + payload + pad + crc) behind a valid file header:
 *                        jls_raw_rd returns 0 only if both checksums match over exactly the documented bytes, and then
 *                        returns exactly the file bytes; on failure the caller's header is tagged INVALID.
 * MODE_OPEN    (C04-O1): symbolic 32-byte file header: jls_raw_open("r") succeeds only for a valid identification,
 *                        checksum over bytes 0..27 and supported major version.
 * MODE_FRAMING (C05-O1): write NCH chunks with symbolic payload lengths/bytes through jls_raw_wr + jls_raw_close; an independent
 *                        decoder written from format.h walks the image forward: alignment, zero padding, checksum extents,
 *                        payload_prev_length, file length field.
 * MODE_RDONLY  (C19-O1): open "r" on a symbolic image, any of the read/navigation calls, close: no backend write/truncate.
 */
#include "common.h"
#include "membk.h"
#include "jls/raw.h"
#include "jls/format.h"
#include "jls/crc32c.h"
#include "jls/ec.h"

#ifndef PMAX
#define PMAX 20          /* max payload length */
#endif
#ifndef NCH
#define NCH 2
#endif

static const uint8_t IDENT[16] = JLS_HEADER_IDENTIFICATION;

static void put_file_header(uint64_t length) {
    struct jls_file_header_s fh;
    memcpy(fh.identification, IDENT, 16);
    fh.length = length;
    fh.version.u32 = JLS_FORMAT_VERSION_U32;
    fh.crc32 = jls_crc32c((uint8_t *) &fh, 28);
    memcpy(membk_file, &fh, 32);
}

static uint32_t on_disk(uint32_t payload_length) {     /* from format.h: payload, 0..7 zero bytes, crc32; multiple of 8 */
    if (payload_length == 0) {
        return 0;
    }
    return ((payload_length + 4 + 7) / 8) * 8;
}

static uint32_t rd_u32(const uint8_t * p) {
    return ((uint32_t) p[0]) | (((uint32_t) p[1]) << 8) | (((uint32_t) p[2]) << 16) | (((uint32_t) p[3]) << 24);
}

void harness(void) {
    membk_reset();
#if defined(MODE_RD)
    put_file_header(0);
    SYM_BYTES(membk_file + 32, 32 + PMAX + 12, "chunk");
    SYM_U32(flen);
    ASSUME(flen >= 32 && flen <= 32 + 32 + PMAX + 12);
    membk_len = flen;
    struct jls_raw_s * raw = NULL;
    int32_t rc = jls_raw_open(&raw, "f", "r");
    CHECK(rc == JLS_ERROR_TRUNCATED && raw != NULL, "open of an unclosed file (length 0) returns TRUNCATED with a usable instance");
    ASSUME(raw != NULL);
    struct jls_chunk_header_s hdr;
    static uint8_t payload[PMAX + 12 + 8];
    memset(payload, 0xEE, sizeof(payload));
    SYM_U32(maxlen);
    ASSUME(maxlen <= PMAX + 12);
    rc = jls_raw_rd(raw, &hdr, maxlen, payload);
    struct jls_chunk_header_s fh;
    memcpy(&fh, membk_file + 32, 32);
    if (rc == 0) {
        CHECK(flen >= 64, "success requires a complete header in the file");
        CHECK(jls_crc32c(membk_file + 32, 28) == fh.crc32, "header accepted only if its checksum over bytes 0..27 matches");
        CHECK(0 == memcmp(&hdr, membk_file + 32, 32), "returned header equals the file bytes");
        uint32_t L = fh.payload_length;
        if (L) {
            uint32_t sz = on_disk(L);
            CHECK(L <= PMAX + 8 && sz <= maxlen, "payload accepted only if it fits the caller's buffer (size on disk)");
            CHECK((int64_t) (64 + sz) <= (int64_t) flen, "success requires the complete payload + checksum in the file");
            if (!(L <= PMAX + 8 && sz <= maxlen && (int64_t) (64 + sz) <= (int64_t) flen)) {
                return;     /* already reported; the remaining comparisons need these bounds */
            }
            CHECK(jls_crc32c(membk_file + 64, L) == rd_u32(membk_file + 64 + sz - 4), "payload accepted only if its checksum over payload_length bytes matches the stored footer");
            SYM_U32(wi);
            ASSUME(wi < PMAX + 8);
            if (wi < L) {
                CHECK(payload[wi] == membk_file[64 + wi], "returned payload bytes equal the file bytes");
            }
            SYM_U32(gi);
            ASSUME(gi < sizeof(payload));
            if (gi >= maxlen) {
                CHECK(payload[gi] == 0xEE, "nothing written beyond the caller's buffer size");
            }
        }
    } else {
        CHECK(hdr.tag == JLS_TAG_INVALID || rc == JLS_ERROR_TOO_BIG || rc == JLS_ERROR_MESSAGE_INTEGRITY || rc == JLS_ERROR_IO || rc == JLS_ERROR_EMPTY,
              "failure is reported through an error code");
        if (jls_crc32c(membk_file + 32, 28) != fh.crc32 || flen < 64) {
            CHECK(hdr.tag == JLS_TAG_INVALID, "a rejected header leaves the caller's header tagged INVALID");
        }
    }
    jls_raw_close(raw);
    CHECK(membk_n_writes == 0 && membk_n_truncates == 0, "reading never writes");
#elif defined(MODE_OPEN)
    SYM_BYTES(membk_file, 32, "fhdr");
    SYM_U32(flen);
    ASSUME(flen <= 40);
    membk_len = flen;
    struct jls_raw_s * raw = NULL;
    int32_t rc = jls_raw_open(&raw, "f", "r");
    struct jls_file_header_s fh;
    memcpy(&fh, membk_file, 32);
    if (rc == 0 || rc == JLS_ERROR_TRUNCATED) {
        CHECK(raw != NULL, "usable instance");
        CHECK(flen >= 32, "a file shorter than the file header is rejected");
        CHECK(0 == memcmp(membk_file, IDENT, 16), "identification accepted only if it matches");
        CHECK(jls_crc32c(membk_file, 28) == fh.crc32, "file header accepted only if its checksum over bytes 0..27 matches");
        CHECK(fh.version.s.major <= JLS_FORMAT_VERSION_MAJOR, "newer major format versions are rejected");
        CHECK((rc == JLS_ERROR_TRUNCATED) == (fh.length == 0), "length 0 (not closed) is reported as TRUNCATED");
        jls_raw_close(raw);
    } else {
        CHECK(raw == NULL, "failed open returns no instance");
    }
    CHECK(membk_n_writes == 0 && membk_n_truncates == 0, "opening for read never writes");
#elif defined(MODE_FRAMING)
#ifndef ZERO_MIDDLE_FIRST_LEN
#define ZERO_MIDDLE_FIRST_LEN 5
#endif
    struct jls_raw_s * raw = NULL;
    int32_t rc = jls_raw_open(&raw, "f", "w");
    CHECK(rc == 0 && raw != NULL, "open for write");
    ASSUME(raw != NULL);
    uint32_t plen[NCH];
    static uint8_t pay[NCH][PMAX];
    uint8_t tags[NCH];
    uint16_t metas[NCH];
    for (unsigned k = 0; k < NCH; ++k) {
        SYM_U32(len);
        ASSUME(len <= PMAX);
#ifdef ZERO_MIDDLE
        if (k == 1) { len = 0; }          /* a chunk without payload between two others (every track DEF chunk of a real file) */
        if (k == 0) { len = ZERO_MIDDLE_FIRST_LEN; }
#endif
        plen[k] = len;
        SYM_BYTES(pay[k], PMAX, "payload");
        struct jls_chunk_header_s h;
        SYM_U64(inext);
        SYM_U64(iprev);
        SYM_U8(tag);
        SYM_U16(meta);
        SYM_U32(junk_prev);
        ASSUME(tag != JLS_TAG_INVALID);
        h.item_next = inext; h.item_prev = iprev; h.tag = tag; h.rsv0_u8 = 0; h.chunk_meta = meta;
        h.payload_length = len; h.payload_prev_length = junk_prev; h.crc32 = 0;
        tags[k] = tag; metas[k] = meta;
        int64_t at = jls_raw_chunk_tell(raw);
        CHECK((at & 7) == 0, "every chunk starts 8-byte aligned");
        rc = jls_raw_wr(raw, &h, pay[k]);
        CHECK(rc == 0, "chunk written");
    }
    jls_raw_close(raw);
    /* ---- independent decoder (format.h only) ---- */
    struct jls_file_header_s fh;
    memcpy(&fh, membk_file, 32);
    CHECK(0 == memcmp(fh.identification, IDENT, 16) && fh.crc32 == jls_crc32c(membk_file, 28), "file header valid");
    CHECK((int64_t) fh.length == membk_len, "recorded file length equals the file size");
    int64_t pos = 32;
    uint32_t prev = 0;
    for (unsigned k = 0; k < NCH; ++k) {
        CHECK(pos + 32 <= membk_len, "chunk header inside the file");
        struct jls_chunk_header_s h;
        memcpy(&h, membk_file + pos, 32);
        CHECK(h.crc32 == jls_crc32c(membk_file + pos, 28), "chunk header checksum valid");
        CHECK(h.tag == tags[k] && h.chunk_meta == metas[k] && h.payload_length == plen[k] && h.rsv0_u8 == 0, "header fields as written");
        CHECK(h.payload_prev_length == prev, "payload_prev_length is the payload length of the physically previous chunk");
        uint32_t sz = on_disk(h.payload_length);
        CHECK(pos + 32 + sz <= membk_len, "payload inside the file");
        if (sz) {
            CHECK(rd_u32(membk_file + pos + 32 + sz - 4) == jls_crc32c(membk_file + pos + 32, h.payload_length), "payload checksum valid");
            SYM_U32(wi);
            ASSUME(wi < PMAX + 8);
            if (wi < h.payload_length) {
                CHECK(membk_file[pos + 32 + wi] == pay[k][wi], "payload bytes as written");
            } else if (wi < sz - 4) {
                CHECK(membk_file[pos + 32 + wi] == 0, "padding bytes are zero");
            }
        }
        prev = h.payload_length;
        pos += 32 + sz;
        CHECK((pos & 7) == 0, "chunks are 8-byte aligned");
    }
    CHECK(pos == membk_len, "no bytes after the last chunk");
#elif defined(MODE_RDONLY)
    put_file_header(0);
    SYM_BYTES(membk_file + 32, 96, "image");
    SYM_U32(flen);
    SYM_U8(closed);
    ASSUME(flen >= 32 && flen <= 128);
    membk_len = flen;
    if (closed & 1) {
        put_file_header(flen);
    }
    struct jls_raw_s * raw = NULL;
    int32_t rc = jls_raw_open(&raw, "f", "r");
    if (raw) {
        struct jls_chunk_header_s hdr;
        static uint8_t payload[128];
#ifndef NOPS
#define NOPS 2
#endif
        for (unsigned k = 0; k < NOPS; ++k) {
            SYM_U8(op);
#ifdef ONLY_SCAN
            ASSUME((op & 15) == 11);
#else
            ASSUME((op & 15) != 11);
#endif
            SYM_I64(arg);
            switch (op & 15) {
                case 0: jls_raw_rd(raw, &hdr, sizeof(payload), payload); break;
                case 1: jls_raw_rd_header(raw, &hdr); break;
                case 2: jls_raw_rd_payload(raw, sizeof(payload), payload); break;
                case 3: ASSUME(arg >= 0 && arg <= 160); jls_raw_chunk_seek(raw, arg); break;
                case 4: jls_raw_chunk_next(raw); break;
                case 5: jls_raw_chunk_prev(raw); break;
                case 6: jls_raw_item_next(raw); break;
                case 7: jls_raw_item_prev(raw); break;
                case 8: jls_raw_chunk_tell_end(raw); break;
                case 9: jls_raw_seek_end(raw); break;
                case 10: jls_raw_flush(raw); break;
                case 11: jls_raw_chunk_scan(raw); break;
                default: jls_raw_chunk_tell(raw); break;
            }
        }
        jls_raw_close(raw);
    }
    (void) rc;
    CHECK(membk_n_writes == 0 && membk_n_truncates == 0, "a file opened for reading is never written or truncated");
#else
#error "no MODE"
#endif
    WITNESS_END();
}
